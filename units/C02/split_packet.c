/* C02/C12: bidib_split_packet - every well-formed message of a packet is handed to the dispatcher exactly once, in
 * packet order, as a heap copy holding exactly its bytes, with the address and type found at the spec'd offsets, whatever
 * the expected sequence number was; a malformed message ends the processing without any out-of-bounds access.
 * Callees replaced by contracts (DFCC).  Ghost g_off = offset of the next message the dispatcher must receive. */
#include "vp_common.h"
#include "vp_syslog.h"
#include <time.h>
#define clock_gettime(id, ts) ((ts)->tv_sec = 0, (ts)->tv_nsec = 0, 0)
#include "src/transmission/bidib_transmission_receive.c"
#undef clock_gettime

const uint8_t *g_pkt; size_t g_size; size_t g_off; unsigned g_count; size_t g_w;
uint8_t g_x_type; uint8_t g_x_addr[4]; uint8_t g_x_seq; uint8_t g_exp_seq;
unsigned g_upd_calls;

/* position of the address terminator of a message that satisfies the split_packet validation, 0 if it does not */
#define VP_TERM(m) ((m)[0] >= 3 && (m)[1] == 0 ? 1 : (m)[0] >= 4 && (m)[2] == 0 ? 2 : (m)[0] >= 5 && (m)[3] == 0 ? 3 : (m)[0] >= 6 && (m)[4] == 0 ? 4 : 0)
#define VP_MSG_OK(m) (__CPROVER_r_ok((m), 1) && __CPROVER_r_ok((m), (size_t)(m)[0] + 1) && VP_TERM(m) != 0)

uint8_t bidib_extract_msg_type(const uint8_t *const message)
__CPROVER_requires(VP_MSG_OK(message))
__CPROVER_assigns(g_x_type)
__CPROVER_ensures(__CPROVER_return_value == message[VP_TERM(message) + 2] && g_x_type == __CPROVER_return_value)
;
uint8_t bidib_extract_seq_num(const uint8_t *const message)
__CPROVER_requires(VP_MSG_OK(message))
__CPROVER_assigns(g_x_seq)
__CPROVER_ensures(__CPROVER_return_value == message[VP_TERM(message) + 1] && g_x_seq == __CPROVER_return_value)
;
void bidib_extract_address(const uint8_t *const message, uint8_t *dest)
__CPROVER_requires(VP_MSG_OK(message) && __CPROVER_w_ok(dest, 4))
__CPROVER_assigns(__CPROVER_object_whole(dest), __CPROVER_object_whole(g_x_addr))
__CPROVER_ensures(dest[0] == (VP_TERM(message) > 1 ? message[1] : 0) && dest[1] == (VP_TERM(message) > 2 ? message[2] : 0) &&
                  dest[2] == (VP_TERM(message) > 3 ? message[3] : 0) && dest[3] == 0)
__CPROVER_ensures(g_x_addr[0] == dest[0] && g_x_addr[1] == dest[1] && g_x_addr[2] == dest[2] && g_x_addr[3] == 0)
;
uint8_t bidib_node_state_get_and_incr_receive_seqnum(const uint8_t *const addr_stack)
__CPROVER_requires(__CPROVER_r_ok(addr_stack, 4))
__CPROVER_assigns()
__CPROVER_ensures(__CPROVER_return_value == g_exp_seq)
;
void bidib_node_state_set_receive_seqnum(const uint8_t *const addr_stack, uint8_t seqnum)
__CPROVER_requires(__CPROVER_r_ok(addr_stack, 4))
__CPROVER_assigns()
;
unsigned int bidib_node_state_update(const uint8_t *const addr_stack, uint8_t response_type)
__CPROVER_requires(__CPROVER_r_ok(addr_stack, 4))
__CPROVER_requires(response_type == g_x_type && addr_stack[0] == g_x_addr[0] && addr_stack[1] == g_x_addr[1] && addr_stack[2] == g_x_addr[2])
__CPROVER_assigns(g_upd_calls)
__CPROVER_ensures(g_upd_calls == __CPROVER_old(g_upd_calls) + 1)
;
void bidib_handle_received_message(uint8_t *message, uint8_t type, const uint8_t *const addr_stack, uint8_t seqnum, unsigned int action_id)
__CPROVER_requires(VP_MSG_OK(message) && __CPROVER_r_ok(addr_stack, 4))
__CPROVER_requires(g_off < g_size && message[0] == g_pkt[g_off] && g_off + (size_t)message[0] + 1 <= g_size)   /* the next message of the packet, whole */
__CPROVER_requires(g_w > message[0] || message[g_w] == g_pkt[g_off + g_w])                                       /* byte-identical copy */
__CPROVER_requires(type == g_x_type && type == message[VP_TERM(message) + 2])
__CPROVER_requires(addr_stack[0] == g_x_addr[0] && addr_stack[1] == g_x_addr[1] && addr_stack[2] == g_x_addr[2] && addr_stack[3] == 0)
__CPROVER_requires(g_upd_calls == g_count + 1)                                                                   /* node state updated once before dispatch */
__CPROVER_assigns(g_off, g_count)
__CPROVER_ensures(g_off == __CPROVER_old(g_off) + (size_t)message[0] + 1 && g_count == __CPROVER_old(g_count) + 1)
;

void vp_harness(void) {
	size_t in_size; VP_IN(size_t, in_size);
#ifdef VP_MAX_PACKET
	__CPROVER_assume(in_size <= VP_MAX_PACKET);   /* bounded stand-in: stated bound on the packet size */
#else
	__CPROVER_assume(in_size <= 255);
#endif
	uint8_t *pkt = malloc(in_size);
	__CPROVER_assume(pkt != NULL);
	VP_IN(size_t, g_w);
	VP_IN(uint8_t, g_exp_seq);
	g_pkt = pkt; g_size = in_size; g_off = 0; g_count = 0; g_upd_calls = 0;
	bidib_split_packet(pkt, in_size);
	VP_COVER(g_count >= 2);
	VP_COVER(g_off < in_size);
	__CPROVER_assert(g_off <= in_size, "C02.split.never_past_the_packet");
	/* processing stops only at the end of the packet or at a message that is not well-formed */
	if (g_off < in_size) {
		const uint8_t *m = pkt + g_off;
		_Bool whole = g_off + (size_t)m[0] + 1 <= in_size;
		_Bool ok = whole && VP_TERM(m) != 0;
		__CPROVER_assert(!ok, "C02.split.every_wellformed_message_delivered_in_order_exactly_once");
	}
	__CPROVER_assert(g_upd_calls == g_count, "C03.split.one_node_state_update_per_message (budget release and expiry are only noticed here)");
}
