/* C02/C12: bidib_receive_packet - delimiter / escape / CRC state machine against a reference decoder running in lock-step
 * inside the read-callback stub, for an arbitrary byte stream (every byte nondeterministic).
 *   C12: the 256-byte packet buffer is never overrun (CBMC bounds checks + invariant buffer_index <= 256)
 *   C02: bidib_split_packet is called iff the reference decoder saw a complete packet whose CRC is 0, with the unescaped
 *        payload minus CRC (size and a watched byte); a bad-CRC or oversized packet has no effect at all.
 * The polling loop `while (!read_byte_success)` is abstracted: the stub always delivers a byte (waiting has no effect on
 * state); stopping (bidib_running == false) is decided nondeterministically by the stub at every byte. */
#include "vp_common.h"
#include "vp_syslog.h"
#include <time.h>
#include <unistd.h>
#define clock_gettime(id, ts) ((ts)->tv_sec = 0, (ts)->tv_nsec = 0, 0)
#define usleep(x) ((void)0)
/* the indirect call through the static pointer read_byte (set by bidib_set_read_src) is redirected textually to the stub:
 * goto-instrument 6.11 --dfcc cannot put a loop contract on a loop that contains a value-returning call through a function pointer */
uint8_t vp_read(int *ok);
#define read_byte(x) vp_read(x)
#include "src/transmission/bidib_transmission_receive.c"
#undef read_byte
#undef clock_gettime
#include "src/transmission/bidib_transmission_crc.c"

/* reference decoder state (spec: 0xFE delimiter, 0xFD escape + (b ^ 0x20), CRC8 over unescaped bytes incl. CRC byte == 0) */
size_t g_len; _Bool g_esc; uint8_t g_crc; _Bool g_over; uint8_t g_watch_val; size_t g_w; _Bool g_done;
unsigned g_split_calls; size_t g_split_size; uint8_t g_split_watch;
unsigned g_reads;

static void bidib_split_packet(const uint8_t *const buffer, size_t buffer_size)
__CPROVER_requires(buffer_size <= 255 && __CPROVER_r_ok(buffer, buffer_size))
__CPROVER_assigns(g_split_calls, g_split_size, g_split_watch)
__CPROVER_ensures(g_split_calls == __CPROVER_old(g_split_calls) + 1 && g_split_size == buffer_size)
__CPROVER_ensures(g_w >= buffer_size || g_split_watch == buffer[g_w])
;

/* CRC8 of the BiDiB spec (x^8+x^5+x^4+1, reflected 0x8C), 8 shift steps written out (loop-free) */
#define VP_CRC_BIT(c) ((uint8_t)(((c) & 1) ? (((c) >> 1) ^ 0x8C) : ((c) >> 1)))
static uint8_t spec_crc8_step(uint8_t crc, uint8_t byte) {
	uint8_t c0 = crc ^ byte;
	uint8_t c1 = VP_CRC_BIT(c0); uint8_t c2 = VP_CRC_BIT(c1); uint8_t c3 = VP_CRC_BIT(c2); uint8_t c4 = VP_CRC_BIT(c3);
	uint8_t c5 = VP_CRC_BIT(c4); uint8_t c6 = VP_CRC_BIT(c5); uint8_t c7 = VP_CRC_BIT(c6); uint8_t c8 = VP_CRC_BIT(c7);
	return c8;
}

uint8_t vp_read(int *ok) {
	uint8_t b; _Bool stop;
	*ok = 1;
	g_reads++;
	if (stop) bidib_running = false;   /* the library may be stopped at any byte; the byte is still consumed by the state machine */
#ifdef VP_GAPS
	/* bounded variant: the serial line may have nothing to deliver at any poll (the caller polls again); at most
	 * VP_MAX_READS polls, then the library is stopped */
	if (g_reads >= VP_MAX_READS) bidib_running = false;
	{ _Bool avail; if (!avail) { *ok = 0; return b; } }
#endif
	if (g_done) return b;
	if (b == 0xFE) { if (g_len != 0 || g_over) g_done = 1; }
	else if (b == 0xFD) g_esc = 1;
	else {
		uint8_t v = g_esc ? (uint8_t)(b ^ 0x20) : b;
		g_esc = 0;
		if (g_len >= 256) g_over = 1;
		else { if (g_len == g_w) g_watch_val = v; g_crc = spec_crc8_step(g_crc, v); g_len++; }
	}
	return b;
}

void vp_harness(void) {
	VP_IN(size_t, g_w);
	g_len = 0; g_esc = 0; g_crc = 0; g_over = 0; g_done = 0; g_split_calls = 0; g_reads = 0;
	bidib_running = true; bidib_discard_rx = false;
	bidib_receive_packet();
	VP_COVER(g_split_calls == 1);
	VP_COVER(g_done && g_crc != 0);
#ifndef VP_GAPS
	VP_COVER(g_over && g_done);
#else
	VP_COVER(g_split_calls == 1 && g_reads == VP_MAX_READS - 1 && g_len == 2);
#endif
	_Bool good = bidib_running && g_done && !g_over && g_crc == 0;
	__CPROVER_assert(g_split_calls == (good ? 1u : 0u), "C02.receive.split_called_iff_complete_packet_with_valid_crc");
	if (good) {
		__CPROVER_assert(g_split_size == g_len - 1, "C02.receive.payload_size_without_crc");
		if (g_w < g_len - 1) __CPROVER_assert(g_split_watch == g_watch_val, "C02.receive.payload_bytes_unescaped_identical");
	}
}
