from vpkg.core import Unit
RX_OTHERS = ["bidib_handle_received_message", "bidib_log_received_message", "bidib_log_sys_error", "bidib_log_boost_stat_error", "bidib_log_boost_stat_okay",
             "bidib_auto_receive", "bidib_receive_first_pkt_magic", "bidib_message_queue_add", "bidib_message_queue_reset", "bidib_message_queue_free_head",
             "bidib_uplink_queue_reset", "bidib_uplink_queue_free", "bidib_uplink_error_queue_reset", "bidib_uplink_error_queue_free",
             "bidib_uplink_intern_queue_reset", "bidib_uplink_intern_queue_free", "bidib_uplink_queue_add", "bidib_uplink_error_queue_add", "bidib_uplink_intern_queue_add",
             "bidib_read_message_from_queue", "bidib_read_message", "bidib_read_error_message", "bidib_read_intern_message", "bidib_set_read_src", "bidib_set_lowlevel_debug_mode"]
UNITS = [
    Unit(name="C02.receive_packet", src="units/C02/receive_packet.c", functions=["bidib_receive_packet"], props=["C02", "C12"],
         replace=["bidib_split_packet"], remove_bodies=[f for f in RX_OTHERS],
         loops=[{"function": "bidib_receive_packet", "anchor": r"while \(bidib_running && !bidib_discard_rx\)",
                 "invariants": "buffer_index == g_len && buffer_index <= 256 && escape_hot == g_esc && crc == g_crc && oversized == g_over && "
                               "read_byte_success == 0 && !g_done && g_split_calls == 0 && !bidib_discard_rx && (!(g_w < buffer_index) || buffer[g_w] == g_watch_val)",
                 "assigns": "data, read_byte_success, buffer_index, escape_hot, oversized, crc, __CPROVER_object_whole(buffer), "
                            "g_len, g_esc, g_crc, g_over, g_done, g_watch_val, g_reads, bidib_running"},
                {"function": "bidib_receive_packet", "anchor": r"while \(!read_byte_success\)",
                 "invariants": "read_byte_success == 1",
                 "assigns": "data, read_byte_success, g_len, g_esc, g_crc, g_over, g_done, g_watch_val, g_reads, bidib_running"}],
         unwind_reason="both loops of bidib_receive_packet carry loop contracts (the polling loop's invariant: a byte was delivered)",
         timeout=300, covers=3, min_obligations=15,
         note="every byte of the stream nondeterministic; arbitrary stop point"),
    Unit(name="C02.receive_packet_gaps", src="units/C02/receive_packet.c", functions=["bidib_receive_packet"], props=["C02", "C12"], defines=["VP_GAPS", "VP_MAX_READS=8"],
         replace=["bidib_split_packet"], remove_bodies=[f for f in RX_OTHERS], kind="bounded",
         bound="at most 8 polls of the read callback, each of which may deliver a byte or nothing (poll gap); both loops unwound completely for that budget",
         unwindset={"bidib_receive_packet.0": 9, "bidib_receive_packet.1": 9}, timeout=300, covers=3, min_obligations=15,
         note="complements C02.receive_packet, whose read stub always delivers: here a poll may find nothing at any point, also right after the escape byte"),
    Unit(name="C02.extract", src="units/C02/extract.c", functions=["bidib_extract_msg_type", "bidib_extract_address", "bidib_extract_seq_num", "bidib_first_data_byte_index"],
         props=["C02", "C12"], no_dfcc=True, remove_bodies=["bidib_communication_works", "bidib_build_message_hex_string"],
         extra_flags=["--unwind", "8", "--unwinding-assertions"], unwind_reason="terminator scans are bounded by the 4-byte address stack under the well-formedness precondition (unwinding assertions prove it)",
         covers=2, min_obligations=8, replay="units/C02/extract.c"),
    Unit(name="C02.split_packet", src="units/C02/split_packet.c", functions=["bidib_split_packet"], props=["C02", "C12"], defines=["VP_MAX_PACKET=12"],
         replace=["bidib_extract_msg_type", "bidib_extract_seq_num", "bidib_extract_address", "bidib_node_state_get_and_incr_receive_seqnum",
                  "bidib_node_state_set_receive_seqnum", "bidib_node_state_update", "bidib_handle_received_message"],
         remove_bodies=[f for f in RX_OTHERS if f != "bidib_handle_received_message"] + ["bidib_receive_packet"],
         kind="bounded", bound="packets of at most 12 bytes (up to 3 messages), all three loops unwound completely for that size (unwinding assertions on); "
                               "the DFCC loop-contract proof for packets up to 255 bytes did not finish within 600 s",
         unwindset={"bidib_split_packet.0": 6, "bidib_split_packet.1": 14, "bidib_split_packet.2": 5}, timeout=600, covers=2, min_obligations=20,
         note="arbitrary packet content; arbitrary expected sequence number; callee contracts enforce that the dispatcher receives the next whole message, byte-identical, after one node-state update"),
]
