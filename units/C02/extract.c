/* C02/C12: bidib_extract_msg_type / _address / _seq_num / bidib_first_data_byte_index against the message layout
 *   len | a1..ak | 0 | seq | type | data..     (k <= 3)
 * for every message that bidib_split_packet hands on (precondition WF: the address terminator is among message[1..4] and
 * the length byte covers seq and type).  All reads must stay inside the message[0]+1 byte heap object. */
#include "vp_common.h"
#include "vp_syslog.h"
#include <unistd.h>
#define usleep(x) ((void)0)
#include "src/transmission/bidib_transmission_util.c"

void vp_harness(void) {
	uint8_t in_len; VP_IN(uint8_t, in_len);
	uint8_t *m = malloc((size_t)in_len + 1);
	__CPROVER_assume(m != NULL);
	m[0] = in_len;
	unsigned in_p; VP_IN(unsigned, in_p);            /* position of the address terminator */
	__CPROVER_assume(in_p >= 1 && in_p <= 4 && in_p + 2 <= in_len);
	__CPROVER_assume(m[in_p] == 0);
	__CPROVER_assume(in_p < 2 || m[1] != 0);
	__CPROVER_assume(in_p < 3 || m[2] != 0);
	__CPROVER_assume(in_p < 4 || m[3] != 0);
	uint8_t a[4];
	uint8_t t = bidib_extract_msg_type(m);
	uint8_t s = bidib_extract_seq_num(m);
	bidib_extract_address(m, a);
	int d = bidib_first_data_byte_index(m);
	VP_COVER(in_p == 4 && d == 7);
	VP_COVER(d == -1);
	__CPROVER_assert(t == m[in_p + 2], "C02.extract.type_is_second_byte_after_terminator");
	__CPROVER_assert(s == m[in_p + 1], "C02.extract.seq_is_first_byte_after_terminator");
	__CPROVER_assert(a[0] == (in_p > 1 ? m[1] : 0) && a[1] == (in_p > 2 ? m[2] : 0) && a[2] == (in_p > 3 ? m[3] : 0) && a[3] == 0,
	                 "C02.extract.address_stack_padded_with_zeros");
	__CPROVER_assert(d == ((int)in_p + 3 <= (int)in_len ? (int)in_p + 3 : -1), "C02.extract.first_data_byte_index_or_minus_one_without_data");
}
#ifdef VP_REPLAY
int main(void) { vp_harness(); printf("REPLAY-PASS\n"); return 0; }
#endif
