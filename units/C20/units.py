from vpkg.core import Unit
from vpkg import csrc
_t = csrc.Tree()
_sy = [f.name for f in _t.by_file[csrc.REPO + "/src/lowlevel/bidib_lowlevel_system.c"]]
_st = [f.name for f in _t.by_file[csrc.REPO + "/src/state/bidib_state.c"]]
UNITS = [
    Unit(name="C20.sys_reset_order", src="units/C20/startup.c", defines=["VP_H_RESET"], functions=["bidib_send_sys_reset", "bidib_send_get_pkt_capacity", "bidib_send_sys_enable"], props=["C20", "C05"], no_dfcc=True,
         remove_bodies=[f for f in _sy if f not in ("bidib_send_sys_reset", "bidib_send_get_pkt_capacity", "bidib_send_sys_enable")], extra_flags=["--nondet-static", "--unwind", "19"], covers=1, min_obligations=6,
         stubbed_contracts=["<15 callees of bidib_send_sys_reset, each an event-recording contract>"], note="loop-free: complete"),
    Unit(name="C20.board_features", src="units/C20/startup.c", defines=["VP_H_FEATURES"], functions=["bidib_state_set_board_features"], props=["C20"], no_dfcc=True,
         kind="bounded", bound="2 configured boards x <= 2 features, arbitrary connectivity / addresses / numbers / values / answers; loops unwound completely for that size",
         remove_bodies=[f for f in _st if f != "bidib_state_set_board_features"], extra_flags=["--nondet-static", "--unwind", "4"], covers=1, min_obligations=6, timeout=300,
         stubbed_contracts=["bidib_send_feature_set", "bidib_read_intern_message", "bidib_flush", "bidib_extract_msg_type", "bidib_first_data_byte_index"]),
    Unit(name="C20.initial_values", src="units/C20/startup.c", defines=["VP_H_INITIAL"], functions=["bidib_state_set_initial_values"], props=["C20"], no_dfcc=True,
         kind="bounded", bound="<= 2 initial values per kind, <= 2 train functions, <= 2 track outputs; loops unwound completely for that size",
         remove_bodies=[f for f in _st if f != "bidib_state_set_initial_values"], extra_flags=["--nondet-static", "--unwind", "14"], covers=1, min_obligations=6, timeout=300,
         stubbed_contracts=["bidib_switch_point", "bidib_set_signal", "bidib_set_peripheral", "bidib_set_train_peripheral", "bidib_set_train_speed", "bidib_flush"]),
]
