/* C20: start-up sequence.
 *  VP_H_RESET     bidib_send_sys_reset: the steps happen in exactly the documented order (reset, flush, table/queue resets, state reset,
 *                 node enumeration, packet capacity, FEATURES, ENABLE, train parameter reset, track outputs GO, flush, occupancy query under
 *                 the boards read lock, flush, INITIAL VALUES).  Every callee replaced by an event-recording contract; loop-free => complete.
 *  VP_H_FEATURES  bidib_state_set_board_features (bounded: 2 boards x <= 2 features): each configured feature is sent exactly once to the
 *                 board it is configured for iff that board is connected, nothing to unconnected boards, whatever value the board answers.
 *  VP_H_INITIAL   bidib_state_set_initial_values (bounded: <= 2 initial values per kind, <= 2 track outputs): one high-level command per
 *                 initial point / signal / peripheral, each train function once per track output, then one flush. */
#include "vp_common.h"
#include "vp_syslog.h"
#include <pthread.h>
#include <unistd.h>
#include <time.h>
unsigned g_ev; unsigned g_boards_locked;
#define pthread_rwlock_rdlock(m) (g_boards_locked++, 0)
#define pthread_rwlock_unlock(m) (g_boards_locked--, 0)
#define pthread_rwlock_wrlock(m) 0
#define pthread_mutex_lock(m) 0
#define pthread_mutex_unlock(m) 0
#define usleep(x) ((void)0)
#define clock_gettime(id, ts) ((ts)->tv_sec = 0, (ts)->tv_nsec = 0, 0)
#ifdef VP_H_RESET
#include "src/lowlevel/bidib_lowlevel_system.c"
#else
#include "src/state/bidib_state.c"
#endif
#include "vp_glib.h"
gpointer vp_q_fresh(GQueue *q) { return NULL; }
void vp_q_pushed(GQueue *q, gpointer e) {}
void vp_q_popped(GQueue *q, gpointer e) {}

#ifdef VP_H_RESET
enum { E_RESET_MSG = 1, E_FLUSH1, E_NODE_TABLE_RESET, E_Q_RESET, E_EQ_RESET, E_IQ_RESET, E_STATE_RESET, E_ALLOC_TABLE, E_PKT_CAP, E_FEATURES, E_ENABLE,
       E_TRAIN_PARAMS, E_GO, E_FLUSH2, E_OCC, E_FLUSH3, E_INITIAL, E_END };
unsigned g_seq[32]; unsigned g_n; uint8_t g_types[4]; unsigned g_msgs; _Bool g_occ_locked; uint8_t g_go_state; unsigned g_flushes;
static void ev(unsigned e) { if (g_n < 32) g_seq[g_n] = e; g_n++; }
void bidib_buffer_message_without_data(const uint8_t *const addr_stack, uint8_t msg_type, unsigned int action_id) {
	if (g_msgs < 4) g_types[g_msgs] = msg_type; g_msgs++;
	ev(msg_type == MSG_SYS_RESET ? E_RESET_MSG : msg_type == MSG_GET_PKT_CAPACITY ? E_PKT_CAP : msg_type == MSG_SYS_ENABLE ? E_ENABLE : 99);
	__CPROVER_assert(addr_stack[0] == 0 && addr_stack[1] == 0 && addr_stack[2] == 0 && addr_stack[3] == 0, "C20.reset.system_messages_go_to_the_interface_broadcast_address");
}
void bidib_buffer_message_with_data(const uint8_t *const addr_stack, uint8_t msg_type, uint8_t data_length, const uint8_t *const data, unsigned int action_id) { ev(98); }
void bidib_flush(void) { g_flushes++; ev(g_flushes == 1 ? E_FLUSH1 : g_flushes == 2 ? E_FLUSH2 : g_flushes == 3 ? E_FLUSH3 : 97); }
void bidib_node_state_table_reset(bool l) { __CPROVER_assert(l, "C20.reset.resets_take_their_own_lock"); ev(E_NODE_TABLE_RESET); }
void bidib_uplink_queue_reset(bool l) { __CPROVER_assert(l, "C20.reset.resets_take_their_own_lock"); ev(E_Q_RESET); }
void bidib_uplink_error_queue_reset(bool l) { __CPROVER_assert(l, "C20.reset.resets_take_their_own_lock"); ev(E_EQ_RESET); }
void bidib_uplink_intern_queue_reset(bool l) { __CPROVER_assert(l, "C20.reset.resets_take_their_own_lock"); ev(E_IQ_RESET); }
void bidib_state_reset(void) { ev(E_STATE_RESET); }
void bidib_state_init_allocation_table(void) { ev(E_ALLOC_TABLE); }
void bidib_state_set_board_features(void) { ev(E_FEATURES); }
void bidib_state_reset_train_params(void) { ev(E_TRAIN_PARAMS); }
void bidib_set_track_output_state_all(t_bidib_cs_state state) { g_go_state = state; ev(E_GO); }
void bidib_state_query_occupancy(void) { g_occ_locked = g_boards_locked > 0; ev(E_OCC); }
void bidib_state_set_initial_values(void) { ev(E_INITIAL); }
void vp_harness(void) {
	unsigned in_action; VP_IN(unsigned, in_action);
	g_n = 0; g_msgs = 0; g_flushes = 0; g_boards_locked = 0;
	bidib_send_sys_reset(in_action);
	VP_COVER(g_n == 17);
	__CPROVER_assert(g_n == 17, "C20.reset.exactly_the_17_startup_steps");
	for (unsigned k = 0; k < 17; k++) __CPROVER_assert(g_seq[k] == k + 1, "C20.reset.steps_in_the_documented_order (features before enable; GO and occupancy query before the initial values)");
	__CPROVER_assert(g_go_state == BIDIB_CS_GO, "C20.reset.track_outputs_switched_to_GO");
	__CPROVER_assert(g_occ_locked && g_boards_locked == 0, "C20.reset.occupancy_query_under_the_boards_read_lock");
}
#endif

#ifdef VP_H_FEATURES
#define NB 2
unsigned g_sets[NB][2]; unsigned g_wrong; unsigned g_flushes; t_bidib_board g_bs[NB]; t_bidib_board_feature g_fs[NB][2];
void bidib_send_feature_set(t_bidib_node_address a, uint8_t number, uint8_t value, unsigned int action_id) {
	_Bool hit = 0;
	for (int b = 0; b < NB; b++) for (int f = 0; f < 2; f++)
		if (!hit && g_bs[b].connected && f < (int)g_bs[b].features->len && a.top == g_bs[b].node_addr.top && a.sub == g_bs[b].node_addr.sub && a.subsub == g_bs[b].node_addr.subsub &&
		    number == g_fs[b][f].number && value == g_fs[b][f].value) { g_sets[b][f]++; hit = 1; }
	if (!hit) g_wrong++;
}
void bidib_flush(void) { g_flushes++; }
uint8_t *bidib_read_intern_message(void) { uint8_t *m = malloc(8); __CPROVER_assume(m != NULL); m[0] = 7; return m; }   /* an answer always arrives; its value is arbitrary */
uint8_t bidib_extract_msg_type(const uint8_t *const message) { return MSG_FEATURE; }
int bidib_first_data_byte_index(const uint8_t *const message) { return 4; }
void vp_harness(void) {
	static vp_garray vb, vf[NB];
	for (int b = 0; b < NB; b++) {
		guint n; __CPROVER_assume(n <= 2); vf[b].data = (gchar *)g_fs[b]; vf[b].len = n; vf[b].elt_size = sizeof g_fs[0][0];
		g_bs[b].features = (GArray *)&vf[b]; g_bs[b].connected = g_bs[b].connected ? 1 : 0;
		for (int f = 0; f < 2; f++) g_sets[b][f] = 0;
	}
	/* distinct boards have distinct addresses; features of one board have distinct numbers (guaranteed by the config checks, C14) */
	__CPROVER_assume(g_bs[0].node_addr.top != g_bs[1].node_addr.top || g_bs[0].node_addr.sub != g_bs[1].node_addr.sub || g_bs[0].node_addr.subsub != g_bs[1].node_addr.subsub);
	__CPROVER_assume(g_fs[0][0].number != g_fs[0][1].number && g_fs[1][0].number != g_fs[1][1].number);
	vb.data = (gchar *)g_bs; vb.len = NB; vb.elt_size = sizeof g_bs[0]; bidib_boards = (GArray *)&vb;
	g_wrong = 0; g_flushes = 0; g_boards_locked = 0;
	bidib_state_set_board_features();
	VP_COVER(g_bs[0].connected && vf[0].len == 0 && g_bs[1].connected && vf[1].len == 2);
	for (int b = 0; b < NB; b++) for (int f = 0; f < 2; f++)
		__CPROVER_assert(g_sets[b][f] == ((g_bs[b].connected && f < (int)vf[b].len) ? 1u : 0u), "C20.features.each_configured_feature_sent_once_to_its_board_iff_connected");
	__CPROVER_assert(g_wrong == 0, "C20.features.nothing_sent_to_any_other_node_or_with_another_value");
	__CPROVER_assert(g_boards_locked == 0, "C20.features.boards_lock_released");
}
#endif

#ifdef VP_H_INITIAL
unsigned g_pt[2], g_sg[2], g_pe[2], g_fn[2][2], g_sp[2][2], g_other; unsigned g_flushes, g_last_cmd_ev, g_flush_ev;
static GString ids[12]; static char idc[12][2];
static int idx(const char *s) { for (int k = 0; k < 12; k++) if (s == idc[k]) return k; return -1; }
int bidib_switch_point(const char *point, const char *aspect) { int p = idx(point), a = idx(aspect); if (p >= 0 && p < 2 && a == p + 2) g_pt[p]++; else g_other++; g_last_cmd_ev = ++g_ev; return 0; }
int bidib_set_signal(const char *signal, const char *aspect) { int p = idx(signal), a = idx(aspect); if (p >= 4 && p < 6 && a == p + 2) g_sg[p - 4]++; else g_other++; g_last_cmd_ev = ++g_ev; return 0; }
int bidib_set_peripheral(const char *peripheral, const char *aspect) { int p = idx(peripheral), a = idx(aspect); if (p >= 8 && p < 10 && a == p + 2) g_pe[p - 8]++; else g_other++; g_last_cmd_ev = ++g_ev; return 0; }
static char to_id[2][2] = {"x", "y"}; static t_bidib_state_train_initial_value tiv[2]; static uint8_t tval[2];
int bidib_set_train_peripheral(const char *train, const char *peripheral, uint8_t state, const char *track_output) {
	_Bool hit = 0;
	for (int t = 0; t < 2; t++) for (int o = 0; o < 2; o++) if (!hit && train == tiv[t].train->str && peripheral == tiv[t].id->str && state == tiv[t].value && track_output == to_id[o]) { g_fn[t][o]++; hit = 1; }
	if (!hit) g_other++; g_last_cmd_ev = ++g_ev; return 0;
}
int bidib_set_train_speed(const char *train, int speed, const char *track_output) { g_last_cmd_ev = ++g_ev; __CPROVER_assert(speed == 0, "C20.initial.train_speed_command_is_speed_0"); return 0; }
void bidib_flush(void) { g_flushes++; g_flush_ev = ++g_ev; }
void vp_harness(void) {
	for (int k = 0; k < 12; k++) { idc[k][0] = 'a' + k; idc[k][1] = 0; ids[k].str = idc[k]; ids[k].len = 1; }
	static t_bidib_state_initial_value pv[2], sv[2], ev2[2]; static vp_garray vp, vs, ve, vt, vo; static t_bidib_track_output_state outs[2];
	static GString trn[2], fid[2]; static char trc[2][2] = {"T", "U"}, fic[2][2] = {"f", "g"};
	for (int k = 0; k < 2; k++) { pv[k].id = &ids[k]; pv[k].value = &ids[k + 2]; sv[k].id = &ids[4 + k]; sv[k].value = &ids[6 + k]; ev2[k].id = &ids[8 + k]; ev2[k].value = &ids[10 + k];
		trn[k].str = trc[k]; fid[k].str = fic[k]; tiv[k].train = &trn[k]; tiv[k].id = &fid[k]; outs[k].id = to_id[k]; }
	guint np, ns, ne, nt, no; __CPROVER_assume(np <= 2 && ns <= 2 && ne <= 2 && nt <= 2 && no <= 2);
	vp.data = (gchar *)pv; vp.len = np; vp.elt_size = sizeof pv[0]; vs.data = (gchar *)sv; vs.len = ns; vs.elt_size = sizeof sv[0]; ve.data = (gchar *)ev2; ve.len = ne; ve.elt_size = sizeof ev2[0];
	vt.data = (gchar *)tiv; vt.len = nt; vt.elt_size = sizeof tiv[0]; vo.data = (gchar *)outs; vo.len = no; vo.elt_size = sizeof outs[0];
	bidib_initial_values.points = (GArray *)&vp; bidib_initial_values.signals = (GArray *)&vs; bidib_initial_values.peripherals = (GArray *)&ve; bidib_initial_values.trains = (GArray *)&vt;
	bidib_track_state.track_outputs = (GArray *)&vo;
	g_other = 0; g_flushes = 0; g_ev = 0; g_last_cmd_ev = 0;
	for (int k = 0; k < 2; k++) { g_pt[k] = g_sg[k] = g_pe[k] = 0; for (int o = 0; o < 2; o++) g_fn[k][o] = g_sp[k][o] = 0; }
	bidib_state_set_initial_values();
	VP_COVER(np == 2 && nt == 2 && no == 2);
	for (int k = 0; k < 2; k++) {
		__CPROVER_assert(g_pt[k] == (k < (int)np ? 1u : 0u) && g_sg[k] == (k < (int)ns ? 1u : 0u) && g_pe[k] == (k < (int)ne ? 1u : 0u), "C20.initial.each_initial_point_signal_peripheral_commanded_exactly_once_with_its_aspect");
		for (int o = 0; o < 2; o++) __CPROVER_assert(g_fn[k][o] == ((k < (int)nt && o < (int)no) ? 1u : 0u), "C20.initial.each_train_function_once_per_track_output");
	}
	__CPROVER_assert(g_other == 0, "C20.initial.nothing_else_commanded");
	__CPROVER_assert(g_flushes == 1 && g_flush_ev > g_last_cmd_ev, "C20.initial.flushed_once_at_the_end");
}
#endif
