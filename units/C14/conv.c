/* C14 ("a value malformed -> rejected; getters reflect the configuration exactly"): the scalar conversions of the parser
 *   bidib_string_to_byte    : decimal digits -> that decimal number, "0x" + hex digits -> that hex number, accepted iff 0..255
 *   bidib_string_to_uid     : "0x" + 14 hex digits -> the 7 bytes in order
 *   bidib_string_to_dccaddr : "0x" + 4 hex digits -> addrh, addrl
 *   bidib_state_uids_equal  : true iff all seven bytes are equal
 * strtol: executable model of the C standard's contract (stubs/vp_strtol.h).  Strings: every content up to the stated
 * length.  Lenient corner cases of strtol (leading white space, sign) are left unspecified here. */
#include "vp_common.h"
#include "vp_syslog.h"
#include <stdlib.h>
#include "vp_strtol.h"
#define strtol(a, b, c) vp_strtol(a, b, c)
#include "src/parser/bidib_config_parser.c"
#undef strtol
#include "src/state/bidib_state.c"
static _Bool isdec(char c) { return c >= '0' && c <= '9'; }
static _Bool ishex(char c) { return isdec(c) || (c >= 'a' && c <= 'f') || (c >= 'A' && c <= 'F'); }
static _Bool lenient(char c) { return c == '+' || c == '-' || c == ' ' || (c >= '\t' && c <= '\r'); }
static unsigned hexv(char c) { return isdec(c) ? (unsigned)(c - '0') : (c >= 'a' && c <= 'f') ? (unsigned)(c - 'a' + 10) : (unsigned)(c - 'A' + 10); }
void vp_harness(void) {
#if defined(VP_H_BYTE)
	char s[6]; unsigned n; VP_IN_BYTES(s, 5); VP_IN(unsigned, n); __CPROVER_assume(n <= 5); s[n] = 0;
	for (unsigned k = 0; k < 5; k++) if (k < n) __CPROVER_assume(s[k] != 0);
	_Bool null_s; uint8_t out = 0x5A; _Bool err = bidib_string_to_byte(null_s ? NULL : s, &out);
	_Bool alldec = n >= 1, allhex = n >= 3 && s[0] == '0' && s[1] == 'x', junk = 0;
	unsigned dv = 0, hv = 0;
	for (unsigned k = 0; k < 5; k++) if (k < n) { if (!isdec(s[k])) alldec = 0; else dv = dv * 10 + (unsigned)(s[k] - '0'); if (k >= 2) { if (!ishex(s[k])) allhex = 0; else hv = hv * 16 + hexv(s[k]); } if (!ishex(s[k]) && !lenient(s[k]) && !(s[k] == 'x' || s[k] == 'X')) junk = 1; }
	VP_COVER(!null_s && alldec && dv == 10 && n == 3); VP_COVER(!null_s && allhex && hv == 255); VP_COVER(!err && out == 0); VP_COVER(junk);
	if (null_s || n == 0) __CPROVER_assert(err && out == 0x5A, "C14.to_byte.null_or_empty_rejected");
	else if (alldec) { __CPROVER_assert(err == (dv > 255), "C14.to_byte.decimal_accepted_iff_at_most_255"); if (!err) __CPROVER_assert(out == dv, "C14.to_byte.decimal_digits_mean_that_decimal_number"); }
	else if (allhex) { __CPROVER_assert(err == (hv > 255), "C14.to_byte.hex_accepted_iff_at_most_255"); if (!err) __CPROVER_assert(out == hv, "C14.to_byte.hex_digits_after_0x_mean_that_hex_number"); }
	else if (junk) __CPROVER_assert(err, "C14.to_byte.malformed_value_rejected");
	if (err) __CPROVER_assert(out == 0x5A, "C14.to_byte.output_untouched_on_rejection");
#elif defined(VP_H_UID)
	char s[18]; unsigned n; VP_IN_BYTES(s, 17); VP_IN(unsigned, n); __CPROVER_assume(n <= 17); s[n] = 0;
	for (unsigned k = 0; k < 17; k++) if (k < n) __CPROVER_assume(s[k] != 0);
	t_bidib_unique_id_mod u; _Bool err = bidib_string_to_uid(s, &u);
	_Bool wf = n == 16 && s[0] == '0' && s[1] == 'x', junk = 0;
	for (unsigned k = 2; k < 16; k++) if (k < n) { if (!ishex(s[k])) wf = 0; if (!ishex(s[k]) && !lenient(s[k]) && !(s[k] == 'x' || s[k] == 'X')) junk = 1; }
	VP_COVER(wf); VP_COVER(n == 16 && junk); VP_COVER(n == 15);
	if (n != 16 || s[0] != '0' || s[1] != 'x' || junk) __CPROVER_assert(err, "C14.to_uid.wrong_length_prefix_or_character_rejected");
	if (wf) {
		__CPROVER_assert(!err, "C14.to_uid.well_formed_accepted");
		uint8_t *b = (uint8_t *)&u; _Static_assert(sizeof(t_bidib_unique_id_mod) == 7, "7 bytes");
		__CPROVER_assert(u.class_id == hexv(s[2]) * 16 + hexv(s[3]) && u.class_id_ext == hexv(s[4]) * 16 + hexv(s[5]) && u.vendor_id == hexv(s[6]) * 16 + hexv(s[7]) && u.product_id1 == hexv(s[8]) * 16 + hexv(s[9]) &&
		                 u.product_id2 == hexv(s[10]) * 16 + hexv(s[11]) && u.product_id3 == hexv(s[12]) * 16 + hexv(s[13]) && u.product_id4 == hexv(s[14]) * 16 + hexv(s[15]), "C14.to_uid.seven_bytes_in_order");
	}
#elif defined(VP_H_DCC)
	char s[8]; unsigned n; VP_IN_BYTES(s, 7); VP_IN(unsigned, n); __CPROVER_assume(n <= 7); s[n] = 0;
	for (unsigned k = 0; k < 7; k++) if (k < n) __CPROVER_assume(s[k] != 0);
	t_bidib_dcc_address d; _Bool err = bidib_string_to_dccaddr(s, &d);
	_Bool wf = n == 6 && s[0] == '0' && s[1] == 'x', junk = 0;
	for (unsigned k = 2; k < 6; k++) if (k < n) { if (!ishex(s[k])) wf = 0; if (!ishex(s[k]) && !lenient(s[k]) && !(s[k] == 'x' || s[k] == 'X')) junk = 1; }
	VP_COVER(wf); VP_COVER(n == 6 && junk);
	if (n != 6 || s[0] != '0' || s[1] != 'x' || junk) __CPROVER_assert(err, "C14.to_dccaddr.wrong_length_prefix_or_character_rejected");
	if (wf) __CPROVER_assert(!err && d.addrh == hexv(s[2]) * 16 + hexv(s[3]) && d.addrl == hexv(s[4]) * 16 + hexv(s[5]), "C14.to_dccaddr.high_byte_then_low_byte");
#else
	t_bidib_unique_id_mod a, b;
	_Bool eq = a.class_id == b.class_id && a.class_id_ext == b.class_id_ext && a.vendor_id == b.vendor_id && a.product_id1 == b.product_id1 && a.product_id2 == b.product_id2 && a.product_id3 == b.product_id3 && a.product_id4 == b.product_id4;
	VP_COVER(eq); VP_COVER(!eq && a.product_id3 == b.product_id3);
	__CPROVER_assert(bidib_state_uids_equal(&a, &b) == eq, "C14.uids_equal.true_iff_all_seven_bytes_equal");
#endif
}
