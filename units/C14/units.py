from vpkg.core import Unit
from vpkg import csrc
_t = csrc.Tree()
_st = [f.name for f in _t.by_file[csrc.REPO + "/src/state/bidib_state.c"]]
_g = [f.name for f in _t.by_file[csrc.REPO + "/src/highlevel/bidib_highlevel_getter.c"]]
UNITS = [
    Unit(name="C14.dcc_addr_in_use", src="units/C14/uniq.c", defines=["VP_H_IN_USE"], functions=["bidib_state_dcc_addr_in_use"], props=["C14"], no_dfcc=True,
         kind="bounded", bound="2 boards x (<= 2 DCC points, <= 2 DCC signals) + <= 2 trains, all addresses arbitrary; loops unwound completely for that size",
         remove_bodies=[f for f in _st if f != "bidib_state_dcc_addr_in_use"], extra_flags=["--nondet-static", "--unwind", "4"], covers=2, min_obligations=4, timeout=300),
    Unit(name="C14.add_board", src="units/C14/uniq.c", defines=["VP_H_ADD_BOARD"], functions=["bidib_state_add_board"], props=["C14"], no_dfcc=True,
         remove_bodies=[f for f in _st if f != "bidib_state_add_board"], extra_flags=["--nondet-static"], covers=2, min_obligations=4,
         stubbed_contracts=["bidib_state_get_board_ref", "bidib_state_get_board_ref_by_uniqueid", "g_array_append_vals"], note="loop-free: complete"),
    Unit(name="C14.add_train", src="units/C14/uniq.c", defines=["VP_H_ADD_TRAIN"], functions=["bidib_state_add_train", "bidib_state_dcc_addr_in_use"], props=["C14"], no_dfcc=True,
         kind="bounded", bound="no DCC accessories, <= 2 existing trains with arbitrary addresses",
         remove_bodies=[f for f in _st if f not in ("bidib_state_add_train", "bidib_state_dcc_addr_in_use")], extra_flags=["--nondet-static", "--unwind", "4"], covers=2, min_obligations=4,
         stubbed_contracts=["bidib_state_get_train_ref", "g_array_append_vals"]),
] + [
    Unit(name="C14.enum_" + n, src="units/C14/enum_getters.c", defines=d, functions=keep, props=["C14", "C17"], no_dfcc=True,
         kind="bounded", bound="board with <= 2 board accessories and <= 2 DCC accessories of the kind; loops unwound completely",
         remove_bodies=[f for f in _g if f not in keep], extra_flags=["--nondet-static", "--unwind", "9"], covers=2, min_obligations=4, timeout=300,
         stubbed_contracts=["bidib_state_get_board_ref", "strdup"])
    for n, d, keep in [("points", [], ["bidib_get_board_points", "bidib_free_id_list_query"]), ("signals", ["VP_H_SIGNALS"], ["bidib_get_board_signals", "bidib_free_id_list_query"])]
] + [
    Unit(name="C14." + n, src="units/C14/conv.c", defines=d, functions=fns, props=["C14"], no_dfcc=True, kind=kind, bound=bound,
         remove_bodies=[f for f in _st if f not in fns] + ["bidib_config_init_parser", "bidib_config_parse_scalar_then_section", "bidib_config_parse"],
         extra_flags=["--nondet-static", "--unwind", "19"], covers=2, min_obligations=5, timeout=600,
         stubbed_contracts=["strtol (executable model of the C standard contract, stubs/vp_strtol.h)"] if n != "uids_equal" else [])
    for n, d, fns, kind, bound in [
        ("to_byte", ["VP_H_BYTE"], ["bidib_string_to_byte"], "bounded", "every string of at most 5 characters"),
        ("to_uid", ["VP_H_UID"], ["bidib_string_to_uid", "bidib_string_to_byte"], "bounded", "every string of at most 17 characters"),
        ("to_dccaddr", ["VP_H_DCC"], ["bidib_string_to_dccaddr", "bidib_string_to_byte"], "bounded", "every string of at most 7 characters"),
        ("uids_equal", [], ["bidib_state_uids_equal"], "proof", ""),
    ]
]
