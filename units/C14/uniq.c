/* C14: uniqueness decision procedures of the configuration.
 *  - bidib_state_dcc_addr_in_use: true iff some DCC point, DCC signal or train uses the address.  Bounded stand-in:
 *    2 boards x (<= 2 DCC points, <= 2 DCC signals) + <= 2 trains, every address arbitrary.
 *  - bidib_state_add_board / bidib_state_add_train: rejected (true, nothing appended) iff the id, the unique id / the DCC address
 *    is already present; otherwise exactly one element appended.  Lookups replaced by contracts. */
#include "vp_common.h"
#include "vp_syslog.h"
#include <pthread.h>
#include <time.h>
#define pthread_mutex_lock(m) 0
#define pthread_mutex_unlock(m) 0
#define pthread_rwlock_rdlock(m) 0
#define pthread_rwlock_wrlock(m) 0
#define pthread_rwlock_unlock(m) 0
#define clock_gettime(id, ts) ((ts)->tv_sec = 0, (ts)->tv_nsec = 0, 0)
#include "src/state/bidib_state.c"
#define VP_GLIB_NO_GARRAY_APPEND
#include "vp_glib.h"
gpointer vp_q_fresh(GQueue *q) { return NULL; }
void vp_q_pushed(GQueue *q, gpointer e) {}
void vp_q_popped(GQueue *q, gpointer e) {}
unsigned g_appends; GArray *g_app_arr; const void *g_app_data; guint g_app_len;
GArray *g_array_append_vals(GArray *array, gconstpointer data, guint len) { g_appends++; g_app_arr = array; g_app_data = data; g_app_len = len; return array; }
_Bool g_id_exists, g_uid_exists, g_train_exists; t_bidib_board g_b; t_bidib_train g_t;
t_bidib_board *bidib_state_get_board_ref(const char *board) { return g_id_exists ? &g_b : NULL; }
t_bidib_board *bidib_state_get_board_ref_by_uniqueid(t_bidib_unique_id_mod unique_id) { return g_uid_exists ? &g_b : NULL; }
t_bidib_train *bidib_state_get_train_ref(const char *train) { return g_train_exists ? &g_t : NULL; }
static GString gid; static char gidstr[2] = "i";

#ifdef VP_H_IN_USE
#define NB 2
void vp_harness(void) {
	static t_bidib_board boards[NB]; static vp_garray vb; vb.data = (gchar *)boards; vb.len = NB; vb.elt_size = sizeof boards[0];
	static t_bidib_dcc_accessory_mapping pts[NB][2], sigs[NB][2]; static vp_garray vp[NB], vs[NB];
	static t_bidib_train trains[2]; static vp_garray vt; guint nt; __CPROVER_assume(nt <= 2); vt.data = (gchar *)trains; vt.len = nt; vt.elt_size = sizeof trains[0];
	t_bidib_dcc_address a; _Bool want = 0;
	for (int k = 0; k < NB; k++) {
		guint np, ns; __CPROVER_assume(np <= 2 && ns <= 2);
		vp[k].data = (gchar *)pts[k]; vp[k].len = np; vp[k].elt_size = sizeof pts[0][0]; vs[k].data = (gchar *)sigs[k]; vs[k].len = ns; vs[k].elt_size = sizeof sigs[0][0];
		boards[k].points_dcc = (GArray *)&vp[k]; boards[k].signals_dcc = (GArray *)&vs[k];
		for (guint j = 0; j < 2; j++) {
			if (j < np && pts[k][j].dcc_addr.addrl == a.addrl && pts[k][j].dcc_addr.addrh == a.addrh) want = 1;
			if (j < ns && sigs[k][j].dcc_addr.addrl == a.addrl && sigs[k][j].dcc_addr.addrh == a.addrh) want = 1;
		}
	}
	for (guint j = 0; j < 2; j++) if (j < nt && trains[j].dcc_addr.addrl == a.addrl && trains[j].dcc_addr.addrh == a.addrh) want = 1;
	bidib_boards = (GArray *)&vb; bidib_trains = (GArray *)&vt;
	_Bool r = bidib_state_dcc_addr_in_use(a);
	VP_COVER(r && vp[0].len == 0 && vs[0].len == 0);
	VP_COVER(!r);
	__CPROVER_assert(r == want, "C14.dcc_addr_in_use.true_iff_some_dcc_point_dcc_signal_or_train_has_the_address");
}
#endif
#ifdef VP_H_ADD_BOARD
void vp_harness(void) {
	VP_IN(_Bool, g_id_exists); VP_IN(_Bool, g_uid_exists);
	gid.str = gidstr; gid.len = 1; t_bidib_board nb; nb.id = &gid;
	static vp_garray vb; bidib_boards = (GArray *)&vb; g_appends = 0;
	_Bool r = bidib_state_add_board(nb);
	VP_COVER(r); VP_COVER(!r);
	__CPROVER_assert(r == (g_id_exists || g_uid_exists), "C14.add_board.rejected_iff_id_or_unique_id_already_present");
	__CPROVER_assert(g_appends == (r ? 0u : 1u) && (r || (g_app_arr == bidib_boards && g_app_len == 1)), "C14.add_board.exactly_one_board_appended_iff_accepted");
}
#endif
#ifdef VP_H_ADD_TRAIN
_Bool g_in_use; unsigned g_in_use_calls; t_bidib_dcc_address g_in_use_arg;
void vp_harness(void) {
	VP_IN(_Bool, g_train_exists);
	gid.str = gidstr; gid.len = 1; t_bidib_train nt; nt.id = &gid;
	static t_bidib_board boards[1]; static vp_garray vb; vb.data = (gchar *)boards; vb.len = 0; vb.elt_size = sizeof boards[0];
	static t_bidib_train trains[2]; static vp_garray vt; guint n; __CPROVER_assume(n <= 2); vt.data = (gchar *)trains; vt.len = n; vt.elt_size = sizeof trains[0];
	bidib_boards = (GArray *)&vb; bidib_trains = (GArray *)&vt; g_appends = 0;
	_Bool used = 0; for (guint j = 0; j < 2; j++) if (j < n && trains[j].dcc_addr.addrl == nt.dcc_addr.addrl && trains[j].dcc_addr.addrh == nt.dcc_addr.addrh) used = 1;
	_Bool r = bidib_state_add_train(nt);
	VP_COVER(r); VP_COVER(!r);
	__CPROVER_assert(r == (used || g_train_exists), "C14.add_train.rejected_iff_id_present_or_dcc_address_in_use");
	__CPROVER_assert(g_appends == (r ? 0u : 1u) && (r || (g_app_arr == bidib_trains && g_app_len == 1)), "C14.add_train.exactly_one_train_appended_iff_accepted");
}
#endif
