/* C14 (bounded stand-in): enumeration getters bidib_get_board_points / bidib_get_board_signals report exactly the declared
 * accessories of the board: all board-type and all DCC-type ones, each as an independent copy of its id, in declaration order.
 * Board with <= 2 board accessories and <= 2 DCC accessories of each kind. */
#include "vp_common.h"
#include "vp_syslog.h"
#include <pthread.h>
#define pthread_mutex_lock(m) 0
#define pthread_mutex_unlock(m) 0
#define pthread_rwlock_rdlock(m) 0
#define pthread_rwlock_wrlock(m) 0
#define pthread_rwlock_unlock(m) 0
char *vp_strdup(const char *s);
#define strdup(s) vp_strdup(s)
#include "src/highlevel/bidib_highlevel_getter.c"
#undef strdup
#include "vp_glib.h"
gpointer vp_q_fresh(GQueue *q) { return NULL; }
void vp_q_pushed(GQueue *q, gpointer e) {}
void vp_q_popped(GQueue *q, gpointer e) {}
unsigned g_dups; const char *g_dup_src[8]; char *g_dup_res[8];
char *vp_strdup(const char *s) { char *p = malloc(2); __CPROVER_assume(p != NULL); if (g_dups < 8) { g_dup_src[g_dups] = s; g_dup_res[g_dups] = p; } g_dups++; return p; }
static const char *src_of(const char *res) { for (unsigned k = 0; k < 8; k++) if (k < g_dups && g_dup_res[k] == res) return g_dup_src[k]; return NULL; }
_Bool g_known; t_bidib_board g_b;
t_bidib_board *bidib_state_get_board_ref(const char *board) { return g_known ? &g_b : NULL; }
void vp_harness(void) {
	VP_IN(_Bool, g_known);
	static t_bidib_board_accessory_mapping pb[2], sb[2]; static t_bidib_dcc_accessory_mapping pd[2], sd[2];
	static vp_garray vpb, vsb, vpd, vsd; static GString ids[8]; static char idc[8][2];
	for (int k = 0; k < 8; k++) { idc[k][0] = 'a' + k; idc[k][1] = 0; ids[k].str = idc[k]; ids[k].len = 1; }
	for (int k = 0; k < 2; k++) { pb[k].id = &ids[k]; sb[k].id = &ids[2 + k]; pd[k].id = &ids[4 + k]; sd[k].id = &ids[6 + k]; }
	guint npb, nsb, npd, nsd; __CPROVER_assume(npb <= 2 && nsb <= 2 && npd <= 2 && nsd <= 2);
	vpb.data = (gchar *)pb; vpb.len = npb; vpb.elt_size = sizeof pb[0]; vsb.data = (gchar *)sb; vsb.len = nsb; vsb.elt_size = sizeof sb[0];
	vpd.data = (gchar *)pd; vpd.len = npd; vpd.elt_size = sizeof pd[0]; vsd.data = (gchar *)sd; vsd.len = nsd; vsd.elt_size = sizeof sd[0];
	g_b.points_board = (GArray *)&vpb; g_b.signals_board = (GArray *)&vsb; g_b.points_dcc = (GArray *)&vpd; g_b.signals_dcc = (GArray *)&vsd;
	g_dups = 0;
#ifdef VP_H_SIGNALS
	t_bidib_id_list_query q = bidib_get_board_signals("b"); guint nb = nsb, nd = nsd; int ob = 2, od = 6;
#else
	t_bidib_id_list_query q = bidib_get_board_points("b"); guint nb = npb, nd = npd; int ob = 0, od = 4;
#endif
	VP_COVER(g_known && nb == 0 && nd == 2);
	VP_COVER(!g_known);
	__CPROVER_assert(q.length == (g_known ? nb + nd : 0), "C14.enumeration.exactly_the_declared_accessories_of_the_board");
	for (guint k = 0; k < 4; k++) if (k < q.length) {
		const char *want = k < nb ? idc[ob + k] : idc[od + (k - nb)];
		__CPROVER_assert(src_of(q.ids[k]) == want, "C14.enumeration.each_entry_is_a_copy_of_the_declared_id_in_declaration_order");
	}
	bidib_free_id_list_query(q);
}
