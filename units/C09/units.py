from vpkg.core import Unit
from vpkg import csrc
_t = csrc.Tree()
_st = [f.name for f in _t.by_file["/repo/src/state/bidib_state.c"] if f.name not in ("bidib_dcc_speed_to_lib_format", "bidib_lib_speed_to_dcc_format")]
_hs = [f.name for f in _t.by_file["/repo/src/highlevel/bidib_highlevel_setter.c"]]
UNITS = [
    Unit(name="C09.speed", src="units/C09/speed.c", functions=["bidib_lib_speed_to_dcc_format", "bidib_dcc_speed_to_lib_format"], props=["C09", "C07"],
         no_dfcc=True, remove_bodies=_st, extra_flags=["--nondet-static"], covers=1, min_obligations=5, note="loop-free: complete over every speed 0..126 x direction and all 256 DCC bytes"),
    Unit(name="C09.set_train_speed", src="units/C09/train_speed.c", defines=["VP_H_SPEED"], functions=["bidib_set_train_speed_internal"], props=["C09"],
         no_dfcc=True, remove_bodies=[f for f in _hs if f != "bidib_set_train_speed_internal"], extra_flags=["--nondet-static"], covers=2, min_obligations=8,
         stubbed_contracts=["bidib_state_get_train_ref", "bidib_state_get_board_ref", "bidib_state_get_train_state_ref", "bidib_send_cs_drive_intern", "bidib_lib_speed_to_dcc_format"],
         note="every int speed (incl. out of range), NULL ids, unknown train, unknown/disconnected/non-track-output board; loop-free => complete"),
    Unit(name="C09.set_train_peripheral", src="units/C09/train_speed.c", defines=["VP_H_PERIPHERAL"], functions=["bidib_set_train_peripheral", "bidib_get_current_train_peripheral_bits"], props=["C09"],
         no_dfcc=True, kind="bounded", bound="train with exactly 3 configured functions on arbitrary distinct bits (0..4, 8..31); loops unwound completely for that size",
         remove_bodies=[f for f in _hs if f not in ("bidib_set_train_peripheral", "bidib_get_current_train_peripheral_bits")],
         extra_flags=["--nondet-static", "--unwind", "34"], timeout=3000, tier="thorough", covers=1, min_obligations=8,
         stubbed_contracts=["bidib_state_get_train_ref", "bidib_state_get_board_ref", "bidib_state_get_train_state_ref", "bidib_state_get_train_peripheral_state_by_bit", "bidib_send_cs_drive_intern"]),
]
