from vpkg.core import Unit
from vpkg import csrc
_t = csrc.Tree()
_st = [f.name for f in _t.by_file[csrc.REPO + "/src/state/bidib_state.c"] if f.name not in ("bidib_dcc_speed_to_lib_format", "bidib_lib_speed_to_dcc_format")]
_hs = [f.name for f in _t.by_file[csrc.REPO + "/src/highlevel/bidib_highlevel_setter.c"]]
UNITS = [
    Unit(name="C09.speed", src="units/C09/speed.c", functions=["bidib_lib_speed_to_dcc_format", "bidib_dcc_speed_to_lib_format"], props=["C09", "C07"],
         no_dfcc=True, remove_bodies=_st, extra_flags=["--nondet-static"], covers=1, min_obligations=5, note="loop-free: complete over every speed 0..126 x direction and all 256 DCC bytes"),
    Unit(name="C09.set_train_speed", src="units/C09/train_speed.c", defines=["VP_H_SPEED"], functions=["bidib_set_train_speed_internal"], props=["C09"],
         no_dfcc=True, remove_bodies=[f for f in _hs if f != "bidib_set_train_speed_internal"], extra_flags=["--nondet-static"], covers=2, min_obligations=8,
         stubbed_contracts=["bidib_state_get_train_ref", "bidib_state_get_board_ref", "bidib_state_get_train_state_ref", "bidib_send_cs_drive_intern", "bidib_lib_speed_to_dcc_format"],
         note="every int speed (incl. out of range), NULL ids, unknown train, unknown/disconnected/non-track-output board; loop-free => complete"),
    Unit(name="C09.emergency_stop", src="units/C09/train_speed.c", defines=["VP_H_ESTOP"], functions=["bidib_emergency_stop_train"], props=["C09"],
         no_dfcc=True, remove_bodies=[f for f in _hs if f != "bidib_emergency_stop_train"], extra_flags=["--nondet-static"], covers=2, min_obligations=8,
         stubbed_contracts=["bidib_state_get_train_ref", "bidib_state_get_board_ref", "bidib_send_cs_drive_intern"], note="loop-free: complete"),
    Unit(name="C09.calibrated_speed", src="units/C09/train_speed.c", defines=["VP_H_CALIBRATED"], functions=["bidib_set_calibrated_train_speed", "bidib_set_train_speed_internal"], props=["C09"],
         no_dfcc=True, remove_bodies=[f for f in _hs if f not in ("bidib_set_calibrated_train_speed", "bidib_set_train_speed_internal")], extra_flags=["--nondet-static", "--unwind", "11"], covers=3, min_obligations=8,
         stubbed_contracts=["bidib_state_get_train_ref", "bidib_state_get_board_ref", "bidib_state_get_train_state_ref", "bidib_send_cs_drive_intern", "bidib_lib_speed_to_dcc_format"],
         note="every int level, calibrated or not; calibration content arbitrary within the configured range; loop-free function (harness loop over the 9 values only)"),
    Unit(name="C09.set_train_peripheral_range", src="units/C09/train_speed.c", defines=["VP_H_PERIPHERAL_RANGE"], functions=["bidib_set_train_peripheral"], props=["C09"],
         no_dfcc=True, remove_bodies=[f for f in _hs if f != "bidib_set_train_peripheral"], extra_flags=["--nondet-static", "--unwind", "34"], timeout=900, covers=1, min_obligations=6,
         stubbed_contracts=["bidib_state_get_train_ref", "bidib_state_get_board_ref", "bidib_send_cs_drive_intern"], note="every state value 2..255: rejected before any lookup"),
    Unit(name="C09.function_bits", src="units/C09/periph.c", defines=["VP_H_BITS"], functions=["bidib_get_current_train_peripheral_bits"], props=["C09"], no_dfcc=True, kind="bounded",
         bound="train with exactly 3 configured functions on arbitrary distinct bits (0..4, 8..31); every range within one group byte; loops unwound completely",
         remove_bodies=[f for f in _hs if f != "bidib_get_current_train_peripheral_bits"], extra_flags=["--nondet-static", "--unwind", "34"], timeout=600, covers=2, min_obligations=8,
         stubbed_contracts=["bidib_state_get_train_peripheral_state_by_bit (state of that bit)"]),
    Unit(name="C09.set_train_peripheral", src="units/C09/periph.c", defines=["VP_H_CMD"], functions=["bidib_set_train_peripheral"], props=["C09"], no_dfcc=True, kind="bounded",
         bound="train with exactly 3 configured functions on arbitrary distinct bits; loops unwound completely",
         remove_bodies=[f for f in _hs if f != "bidib_set_train_peripheral"], stub_srcs=["units/C09/periph_stub.c"], extra_flags=["--nondet-static", "--unwind", "34"], timeout=600, covers=2, min_obligations=8,
         stubbed_contracts=["bidib_get_current_train_peripheral_bits (contract: records the range, arbitrary group byte; proved in C09.function_bits)", "bidib_state_get_train_ref", "bidib_state_get_board_ref", "bidib_send_cs_drive_intern"]),
] + [
    Unit(name="C09." + n, src="units/C09/accessory.c", defines=["VP_KIND=%d" % k], functions=fns, props=["C09"], no_dfcc=True, kind="bounded",
         bound="configuration of 2 boards x (1 board accessory + 1 DCC accessory | 1 peripheral), 2 aspects per mapping, 2 port values per DCC aspect; ids single arbitrary characters, content arbitrary; loops unwound completely",
         remove_bodies=[f for f in _hs if f not in fns], extra_flags=["--nondet-static", "--unwind", "6"], covers=3, min_obligations=8, timeout=600,
         stubbed_contracts=["bidib_send_accessory_set / bidib_send_cs_accessory_intern / bidib_send_lc_output (recording)", "bidib_state_get_dcc_accessory_state_ref (NULL or the state)"],
         note="ids pairwise distinct (C14 invariant of the parser); DCC port values 0/1 and extended flag 0/1 (parser ranges) assumed")
    for n, k, fns in [("switch_point", 0, ["bidib_switch_point", "bidib_get_aspect_by_id", "bidib_get_dcc_aspect_by_id"]),
                      ("set_signal", 1, ["bidib_set_signal", "bidib_get_aspect_by_id", "bidib_get_dcc_aspect_by_id"]),
                      ("set_peripheral", 2, ["bidib_set_peripheral", "bidib_get_aspect_by_id"])]
] + [
    Unit(name="C09." + n, src="units/C09/power.c", defines=[d], functions=fns, props=pr, no_dfcc=True, kind=kind, bound=bound,
         remove_bodies=[f for f in _hs if f not in fns], extra_flags=["--nondet-static", "--unwind", "5"], covers=2, min_obligations=5, timeout=300,
         stubbed_contracts=["bidib_send_cs_set_state / bidib_send_boost_on / bidib_send_boost_off (recording)", "bidib_state_get_board_ref (NULL or a board)"])
    for n, d, fns, pr, kind, bound in [
        ("track_output_state_all", "VP_H_ALL", ["bidib_set_track_output_state_all"], ["C20", "C09", "C16"], "bounded", "3 boards with arbitrary content, distinct addresses; loop unwound completely"),
        ("track_output_state", "VP_H_ONE", ["bidib_set_track_output_state"], ["C09"], "proof", ""),
        ("booster_power_state", "VP_H_BOOSTER", ["bidib_set_booster_power_state"], ["C09"], "proof", ""),
        ("request_reverser_state", "VP_H_REVERSER", ["bidib_request_reverser_state"], ["C09"], "proof", ""),
    ]
]
