/* C09 / C20 / C16: track-output and booster commands.
 *   bidib_set_track_output_state_all : every connected track output (class bit 4) gets exactly one MSG_CS_SET_STATE with the
 *                                      requested state, no other board gets anything (3 boards, arbitrary content)
 *   bidib_set_track_output_state / bidib_set_booster_power_state : return 0 and exactly one message to the board's current
 *                                      address iff the board is known, connected and of the right class; else return 1, nothing sent */
#include "vp_common.h"
#include "vp_syslog_eval.h"
#include <pthread.h>
#define pthread_mutex_lock(m) 0
#define pthread_mutex_unlock(m) 0
#define pthread_rwlock_rdlock(m) 0
#define pthread_rwlock_wrlock(m) 0
#define pthread_rwlock_unlock(m) 0
#include "src/highlevel/bidib_highlevel_setter.c"
#include "vp_glib.h"
gpointer vp_q_fresh(GQueue *q) { return NULL; }
void vp_q_pushed(GQueue *q, gpointer e) {}
void vp_q_popped(GQueue *q, gpointer e) {}
#define NB 3
static t_bidib_board boards[NB]; static vp_garray v_b; static GString s_id[NB]; static char c_id[NB][2];
unsigned g_cs, g_cs_w, g_on, g_off, g_bad; unsigned g_w; uint8_t g_state; _Bool g_known; t_bidib_node_address g_last;
static _Bool addr_eq(t_bidib_node_address x, t_bidib_node_address y) { return x.top == y.top && x.sub == y.sub && x.subsub == y.subsub; }
void bidib_send_cs_set_state(t_bidib_node_address a, uint8_t state, unsigned int action_id) { g_cs++; g_last = a; if (state != g_state) g_bad++; if (addr_eq(a, boards[g_w].node_addr)) g_cs_w++; }
void bidib_send_boost_on(t_bidib_node_address a, uint8_t unicast, unsigned int action_id) { g_on++; g_last = a; if (unicast != 1) g_bad++; }
void bidib_send_boost_off(t_bidib_node_address a, uint8_t unicast, unsigned int action_id) { g_off++; g_last = a; if (unicast != 1) g_bad++; }
unsigned int bidib_get_and_incr_action_id(void) { unsigned a; return a; }
t_bidib_board *bidib_state_get_board_ref(const char *board) { return g_known ? &boards[0] : NULL; }   /* proved in C15.lookup_by_id */
_Bool g_map_known, g_state_known; t_bidib_reverser_mapping g_rmap; t_bidib_reverser_state g_rstate; static GString g_cv; static char g_cvs[6];
unsigned g_vendor_gets; uint8_t g_vg_len; const uint8_t *g_vg_ptr;
t_bidib_reverser_mapping *bidib_state_get_reverser_mapping_ref(const char *reverser) { return g_map_known ? &g_rmap : NULL; }
t_bidib_reverser_state *bidib_state_get_reverser_state_ref(const char *reverser) { return g_state_known ? &g_rstate : NULL; }
void bidib_send_vendor_get(t_bidib_node_address a, uint8_t name_length, const uint8_t *const name, unsigned int action_id) { g_vendor_gets++; g_last = a; g_vg_len = name_length; g_vg_ptr = name; }
void vp_harness(void) {
	guint nb; __CPROVER_assume(nb <= NB); v_b.data = (gchar *)boards; v_b.len = nb; v_b.elt_size = sizeof boards[0]; bidib_boards = (GArray *)&v_b;
	for (int b = 0; b < NB; b++) { c_id[b][0] = (char)(0x61 + b); c_id[b][1] = 0; s_id[b].str = c_id[b]; s_id[b].len = 1; boards[b].id = &s_id[b]; boards[b].connected = boards[b].connected ? 1 : 0; }
	__CPROVER_assume(!addr_eq(boards[0].node_addr, boards[1].node_addr) && !addr_eq(boards[0].node_addr, boards[2].node_addr) && !addr_eq(boards[1].node_addr, boards[2].node_addr));
	VP_IN(unsigned, g_w); __CPROVER_assume(g_w < NB); VP_IN(uint8_t, g_state); VP_IN(_Bool, g_known);
	g_cs = g_cs_w = g_on = g_off = g_bad = 0;
#if defined(VP_H_ALL)
	bidib_set_track_output_state_all((t_bidib_cs_state)g_state);
	unsigned ncs = 0; for (unsigned b = 0; b < NB; b++) if (b < nb && boards[b].connected && (boards[b].unique_id.class_id & (1 << 4))) ncs++;
	_Bool w_cs = g_w < nb && boards[g_w].connected && (boards[g_w].unique_id.class_id & (1 << 4));
	VP_COVER(ncs == 2 && g_w == 2 && w_cs && !boards[0].connected); VP_COVER(ncs == 0 && nb == 3);
	__CPROVER_assert(g_cs_w == (w_cs ? 1u : 0u), "C20.track_output_all.every_connected_track_output_is_commanded_exactly_once");
	__CPROVER_assert(g_cs == ncs && g_bad == 0 && g_on == 0 && g_off == 0, "C20.track_output_all.nothing_else_is_sent_and_the_state_is_the_requested_one");
#elif defined(VP_H_ONE)
	_Bool null_id; int r = bidib_set_track_output_state(null_id ? NULL : "a", (t_bidib_cs_state)g_state);
	_Bool ok = !null_id && g_known && boards[0].connected && (boards[0].unique_id.class_id & (1 << 4));
	VP_COVER(ok); VP_COVER(!ok && g_known);
	__CPROVER_assert(r == (ok ? 0 : 1) && g_cs == (ok ? 1u : 0u) && g_on == 0 && g_off == 0 && g_bad == 0, "C09.track_output_cmd.one_message_iff_known_connected_track_output");
	if (ok) __CPROVER_assert(addr_eq(g_last, boards[0].node_addr), "C09.track_output_cmd.to_the_boards_current_address");
#elif defined(VP_H_REVERSER)
	VP_IN(_Bool, g_map_known); VP_IN(_Bool, g_state_known); g_vendor_gets = 0;
	guint cvlen; __CPROVER_assume(cvlen <= 5); g_cv.str = g_cvs; g_cv.len = cvlen; g_cvs[cvlen] = 0; g_rmap.cv = &g_cv; g_rmap.id = &s_id[1];
	t_bidib_reverser_execution_state before = g_rstate.data.state_value;
	_Bool null_id, null_b; int r = bidib_request_reverser_state(null_id ? NULL : "r", null_b ? NULL : "a");
	_Bool ok = !null_id && !null_b && g_known && boards[0].connected && g_map_known && g_state_known;
	VP_COVER(ok); VP_COVER(!ok && g_known && boards[0].connected);
	__CPROVER_assert(r == (ok ? 0 : 1) && g_vendor_gets == (ok ? 1u : 0u) && g_cs + g_on + g_off == 0, "C09.reverser_request.one_vendor_get_iff_board_connected_and_reverser_configured");
	if (ok) __CPROVER_assert(addr_eq(g_last, boards[0].node_addr) && g_vg_ptr == (const uint8_t *)g_cvs && g_vg_len == cvlen && g_rstate.data.state_value == BIDIB_REV_EXEC_STATE_UNKNOWN, "C09.reverser_request.asks_the_board_for_the_configured_cv_and_marks_the_state_unknown_until_answered");
	else __CPROVER_assert(g_rstate.data.state_value == before, "C09.reverser_request.state_unchanged_on_error");
#else
	_Bool null_id, on; int r = bidib_set_booster_power_state(null_id ? NULL : "a", on);
	_Bool ok = !null_id && g_known && boards[0].connected && (boards[0].unique_id.class_id & (1 << 1));
	VP_COVER(ok && on); VP_COVER(ok && !on); VP_COVER(!ok && g_known);
	__CPROVER_assert(r == (ok ? 0 : 1) && g_on == ((ok && on) ? 1u : 0u) && g_off == ((ok && !on) ? 1u : 0u) && g_cs == 0 && g_bad == 0, "C09.booster_cmd.one_on_or_off_message_iff_known_connected_booster");
	if (ok) __CPROVER_assert(addr_eq(g_last, boards[0].node_addr), "C09.booster_cmd.to_the_boards_current_address");
#endif
}
