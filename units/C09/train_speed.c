/* C09: bidib_set_train_speed_internal / bidib_set_train_peripheral with the lookups replaced by contracts
 * ("NULL, or a valid element with arbitrary content") and bidib_send_cs_drive_intern replaced by a recording contract.
 *   return 1  <=>  unknown train | unknown, disconnected or non-track-output board | speed outside -126..126, and then nothing is submitted;
 *   return 0  =>   exactly one MSG_CS_DRIVE request to the board's current node address with the train's DCC address, the format
 *                  of its speed steps, active = speed only, the encoded speed (direction kept at 0), all functions 0, lock = false. */
#include "vp_common.h"
#include "vp_syslog.h"
#include <pthread.h>
#define pthread_mutex_lock(m) 0
#define pthread_mutex_unlock(m) 0
#define pthread_rwlock_rdlock(m) 0
#define pthread_rwlock_wrlock(m) 0
#define pthread_rwlock_unlock(m) 0
#include "src/highlevel/bidib_highlevel_setter.c"
#include "vp_glib.h"
gpointer vp_q_fresh(GQueue *q) { return NULL; }
void vp_q_pushed(GQueue *q, gpointer e) {}
void vp_q_popped(GQueue *q, gpointer e) {}

_Bool g_train_known, g_board_known; t_bidib_train g_train; t_bidib_board g_board; t_bidib_train_state_intern g_ts;
unsigned g_drive_calls; t_bidib_node_address g_drive_addr; t_bidib_cs_drive_mod g_drive_params; _Bool g_drive_lock; unsigned g_other_sends;
uint8_t g_bit_state[32]; t_bidib_train_peripheral_state g_pstate[32];

t_bidib_train *bidib_state_get_train_ref(const char *train) { return g_train_known ? &g_train : NULL; }
t_bidib_board *bidib_state_get_board_ref(const char *board) { return g_board_known ? &g_board : NULL; }
t_bidib_train_state_intern *bidib_state_get_train_state_ref(const char *train) { return &g_ts; }
t_bidib_train_peripheral_state *bidib_state_get_train_peripheral_state_by_bit(const t_bidib_train_state_intern *train_state, uint8_t bit) {
	__CPROVER_assert(bit < 32, "C09.peripheral.function_bit_below_32");
	g_pstate[bit % 32].state = g_bit_state[bit % 32];
	return &g_pstate[bit % 32];
}
unsigned int bidib_get_and_incr_action_id(void) { unsigned a; return a; }
uint8_t bidib_lib_speed_to_dcc_format(uint8_t speed, bool is_forwards) { return (uint8_t)((is_forwards ? 0x80 : 0) | (speed == 0 ? 0 : speed + 1)); }  /* proved in C09.speed */
void bidib_send_cs_drive_intern(t_bidib_node_address node_address, t_bidib_cs_drive_mod cs_drive_params, unsigned int action_id, bool lock) {
	g_drive_calls++; g_drive_addr = node_address; g_drive_params = cs_drive_params; g_drive_lock = lock;
}

static GString vp_id; static char vp_idstr[2] = "x";
static void setup(void) {
	VP_IN(_Bool, g_train_known); VP_IN(_Bool, g_board_known);
	vp_id.str = vp_idstr; vp_id.len = 1;
	g_board.id = &vp_id; g_train.id = &vp_id;
	g_drive_calls = 0; g_other_sends = 0;
	/* type invariant of bool members: 0 or 1 */
	g_ts.set_is_forwards = g_ts.set_is_forwards ? 1 : 0; g_board.connected = g_board.connected ? 1 : 0;
}

#ifdef VP_H_SPEED
void vp_harness(void) {
	setup();
	int in_speed; VP_IN(int, in_speed);
	_Bool null_train, null_out;
	int r = bidib_set_train_speed_internal(null_train ? NULL : "t", in_speed, null_out ? NULL : "o");
	VP_COVER(r == 0);
	VP_COVER(r == 1 && in_speed == 127);
	_Bool ok = !null_train && !null_out && in_speed >= -126 && in_speed <= 126 && g_train_known && g_board_known && g_board.connected && (g_board.unique_id.class_id & (1 << 4));
	__CPROVER_assert(r == (ok ? 0 : 1), "C09.speed_cmd.returns_0_iff_known_connected_track_output_and_speed_in_range");
	__CPROVER_assert(g_drive_calls == (ok ? 1u : 0u), "C09.speed_cmd.exactly_one_drive_message_or_nothing");
	if (ok) {
		__CPROVER_assert(g_drive_addr.top == g_board.node_addr.top && g_drive_addr.sub == g_board.node_addr.sub && g_drive_addr.subsub == g_board.node_addr.subsub, "C09.speed_cmd.to_the_boards_current_node_address");
		__CPROVER_assert(g_drive_params.dcc_address.addrl == g_train.dcc_addr.addrl && g_drive_params.dcc_address.addrh == g_train.dcc_addr.addrh, "C09.speed_cmd.trains_dcc_address");
		__CPROVER_assert(g_drive_params.dcc_format == (g_train.dcc_speed_steps == 28 ? 2 : g_train.dcc_speed_steps == 126 ? 3 : 0), "C09.speed_cmd.format_from_speed_steps");
		_Bool fwd = in_speed > 0 || (in_speed == 0 && g_ts.set_is_forwards);
		int mag = in_speed < 0 ? -in_speed : in_speed;
		__CPROVER_assert(g_drive_params.speed == (uint8_t)((fwd ? 0x80 : 0) | (mag == 0 ? 0 : mag + 1)), "C09.speed_cmd.speed_byte_encoding_direction_kept_at_0");
		__CPROVER_assert(g_drive_params.active == 1 && g_drive_params.function1 == 0 && g_drive_params.function2 == 0 && g_drive_params.function3 == 0 && g_drive_params.function4 == 0,
		                 "C09.speed_cmd.only_the_speed_group_active");
		__CPROVER_assert(!g_drive_lock, "C10.speed_cmd.trains_lock_not_retaken");
	}
}
#endif

#if defined(VP_H_PERIPHERAL) || defined(VP_H_PERIPHERAL_RANGE)
/* bounded stand-in: the train has exactly 3 configured functions with arbitrary (distinct) bits 0..31 and ids "a","b","c" */
void vp_harness(void) {
	setup();
	static t_bidib_train_peripheral_mapping maps[3]; static GString ids[3]; static char s0[2] = "a", s1[2] = "b", s2[2] = "c";
	ids[0].str = s0; ids[1].str = s1; ids[2].str = s2;
	for (int k = 0; k < 3; k++) { ids[k].len = 1; maps[k].id = &ids[k]; uint8_t b; __CPROVER_assume(b < 32 && (b < 5 || b >= 8)); maps[k].bit = b; }
	__CPROVER_assume(maps[0].bit != maps[1].bit && maps[0].bit != maps[2].bit && maps[1].bit != maps[2].bit);
	vp_garray arr; arr.data = (gchar *)maps; arr.len = 3; arr.elt_size = sizeof maps[0];
	g_train.peripherals = (GArray *)&arr;
	for (int k = 0; k < 32; k++) { uint8_t v; __CPROVER_assume(v <= 1); g_bit_state[k] = v; }
	/* functions that are not configured are off */
	for (int k = 0; k < 32; k++) if (k != maps[0].bit && k != maps[1].bit && k != maps[2].bit) g_bit_state[k] = 0;
	unsigned in_which; VP_IN(unsigned, in_which); __CPROVER_assume(in_which <= 3);
	uint8_t in_state; VP_IN(uint8_t, in_state);
#ifdef VP_H_PERIPHERAL_RANGE
	__CPROVER_assume(in_state > 1);          /* quick unit: the documented range 0/1 is enforced before anything else (finding D18) */
#else
	__CPROVER_assume(in_state <= 1);
#endif
	const char *names[4] = {"a", "b", "c", "zz"};
	int r = bidib_set_train_peripheral("t", names[in_which], in_state, "o");
#ifdef VP_H_PERIPHERAL_RANGE
	VP_COVER(in_state == 2 && in_which == 0 && g_train_known);
	__CPROVER_assert(r == 1 && g_drive_calls == 0, "C09.peripheral.state_other_than_0_or_1_returns_1_and_submits_nothing");
#else
	VP_COVER(r == 0);
	_Bool ok = in_which < 3 && g_train_known && g_board_known && g_board.connected && (g_board.unique_id.class_id & (1 << 4));
	__CPROVER_assert(r == (ok ? 0 : 1), "C09.peripheral.returns_0_iff_known_train_function_and_connected_track_output");
	__CPROVER_assert(g_drive_calls == (ok ? 1u : 0u), "C09.peripheral.exactly_one_drive_message_or_nothing");
	if (ok) {
		unsigned b = maps[in_which].bit;
		unsigned lo = b < 5 ? 0 : b < 12 ? 8 : b < 16 ? 12 : b < 24 ? 16 : 24, hi = b < 5 ? 4 : b < 12 ? 11 : b < 16 ? 15 : b < 24 ? 23 : 31;
		uint8_t f[4] = {g_drive_params.function1, g_drive_params.function2, g_drive_params.function3, g_drive_params.function4};
		__CPROVER_assert(g_drive_params.active == (b < 5 ? 2 : b < 12 ? 4 : b < 16 ? 8 : b < 24 ? 16 : 32), "C09.peripheral.function_group_selected_by_bit");
		__CPROVER_assert(((f[b / 8] >> (b % 8)) & 1) == in_state, "C09.peripheral.requested_function_bit_set_to_state");
		for (unsigned k = lo; k <= hi; k++) if (k != b) __CPROVER_assert(((f[k / 8] >> (k % 8)) & 1) == g_bit_state[k], "C09.peripheral.other_functions_of_the_group_preserved");
		__CPROVER_assert(g_drive_params.speed == 0 && g_drive_addr.top == g_board.node_addr.top && g_drive_addr.sub == g_board.node_addr.sub && g_drive_addr.subsub == g_board.node_addr.subsub, "C09.peripheral.to_the_boards_current_node_address");
	}
#endif
}
#endif

#if defined(VP_H_ESTOP)
void vp_harness(void) {
	setup();
	_Bool null_train, null_out;
	int r = bidib_emergency_stop_train(null_train ? NULL : "t", null_out ? NULL : "o");
	_Bool ok = !null_train && !null_out && g_train_known && g_board_known && g_board.connected && (g_board.unique_id.class_id & (1 << 4));
	VP_COVER(r == 0); VP_COVER(r == 1 && g_train_known && g_board_known);
	__CPROVER_assert(r == (ok ? 0 : 1) && g_drive_calls == (ok ? 1u : 0u), "C09.estop_cmd.exactly_one_drive_message_iff_known_train_and_connected_track_output");
	if (ok) {
		__CPROVER_assert(g_drive_addr.top == g_board.node_addr.top && g_drive_addr.sub == g_board.node_addr.sub && g_drive_addr.subsub == g_board.node_addr.subsub, "C09.estop_cmd.to_the_boards_current_node_address");
		__CPROVER_assert(g_drive_params.dcc_address.addrl == g_train.dcc_addr.addrl && g_drive_params.dcc_address.addrh == g_train.dcc_addr.addrh &&
		                 g_drive_params.dcc_format == (g_train.dcc_speed_steps == 28 ? 2 : g_train.dcc_speed_steps == 126 ? 3 : 0), "C09.estop_cmd.trains_dcc_address_and_format");
		__CPROVER_assert(g_drive_params.active == 1 && (g_drive_params.speed & 0x7F) == 1 && g_drive_params.function1 == 0 && g_drive_params.function2 == 0 && g_drive_params.function3 == 0 && g_drive_params.function4 == 0,
		                 "C09.estop_cmd.speed_step_1_is_the_dcc_emergency_stop_and_only_the_speed_group_is_active");
	}
}
#elif defined(VP_H_CALIBRATED)
void vp_harness(void) {
	setup();
	static int cal[9]; static vp_garray vcal; vcal.data = (gchar *)cal; vcal.len = 9; vcal.elt_size = sizeof cal[0];
	for (int k = 0; k < 9; k++) __CPROVER_assume(cal[k] >= 0 && cal[k] <= 126);       /* C14: calibration is 9 values <= 126 (C13.parse_train_calibration) */
	_Bool has_cal; g_train.calibration = has_cal ? (GArray *)&vcal : NULL;
	int in_speed; VP_IN(int, in_speed);
	int r = bidib_set_calibrated_train_speed("t", in_speed, "o");
	_Bool ok = in_speed >= -9 && in_speed <= 9 && g_train_known && has_cal && g_board_known && g_board.connected && (g_board.unique_id.class_id & (1 << 4));
	VP_COVER(r == 0 && in_speed == -9); VP_COVER(r == 1 && in_speed == 10); VP_COVER(r == 0 && in_speed == 0);
	__CPROVER_assert(r == (ok ? 0 : 1) && g_drive_calls == (ok ? 1u : 0u), "C09.calibrated_cmd.one_drive_message_iff_level_in_-9..9_train_calibrated_and_track_output_connected");
	if (ok) {
		int step = in_speed == 0 ? 0 : cal[(in_speed < 0 ? -in_speed : in_speed) - 1];
		_Bool fw = step == 0 ? g_ts.set_is_forwards : (in_speed > 0);     /* a level calibrated to step 0 is a stop: direction kept */
		__CPROVER_assert(g_drive_params.speed == (uint8_t)((fw ? 0x80 : 0) | (step == 0 ? 0 : step + 1)), "C09.calibrated_cmd.speed_is_the_configured_step_of_that_level_with_the_sign_as_direction");
	}
}
#endif

