/* contract stub of bidib_get_current_train_peripheral_bits (proved against this contract's strongest form in C09.function_bits):
 * records the requested range and ORs an arbitrary byte into *bits */
#include "vp_common.h"
#include <glib.h>
#include "src/state/bidib_state_intern.h"
size_t vp_h_start, vp_h_end; unsigned vp_h_calls; uint8_t vp_h_val; uint8_t *vp_h_ptr; const t_bidib_train *vp_h_train;
void bidib_get_current_train_peripheral_bits(const t_bidib_train *const train, size_t start, size_t end, uint8_t *bits) {
	vp_h_calls++; vp_h_train = train; vp_h_start = start; vp_h_end = end; vp_h_ptr = bits;
	uint8_t v; *bits |= v; vp_h_val = *bits;
}
