/* C09: speed-step encoding  -126..126 <-> DCC speed byte (bit 7 = forwards, low 7 bits: 0 stop, 1 emergency stop, n+1 = step n):
 * full domain of both conversion functions, round trip, direction kept at speed 0. */
#include "vp_common.h"
#include "vp_syslog.h"
#include "src/state/bidib_state.c"
void vp_harness(void) {
	int in_speed; VP_IN(int, in_speed);
	_Bool in_fwd; VP_IN(_Bool, in_fwd); in_fwd = in_fwd ? 1 : 0;   /* a _Bool object holds 0 or 1 (type invariant) */
	uint8_t in_dcc; VP_IN(uint8_t, in_dcc);
	__CPROVER_assume(in_speed >= 0 && in_speed <= 126);
	uint8_t d = bidib_lib_speed_to_dcc_format((uint8_t)in_speed, in_fwd);
	VP_COVER(in_speed == 126 && in_fwd);
	__CPROVER_assert((d >> 7) == (in_fwd ? 1 : 0), "C09.speed.direction_bit_kept_also_at_speed_0");
	__CPROVER_assert((d & 0x7F) == (in_speed == 0 ? 0 : in_speed + 1), "C09.speed.step_n_encoded_as_n_plus_1_and_0_as_stop");
	int back = bidib_dcc_speed_to_lib_format(d);
	__CPROVER_assert(back == (in_fwd ? in_speed : -in_speed), "C09.speed.round_trip_lib_to_dcc_to_lib");
	int l = bidib_dcc_speed_to_lib_format(in_dcc);
	int step = in_dcc & 0x7F;
	__CPROVER_assert(l == (step <= 1 ? 0 : ((in_dcc & 0x80) ? step - 1 : -(step - 1))), "C09.speed.dcc_byte_decoded_for_all_256_values");
	__CPROVER_assert(l >= -126 && l <= 126, "C09.speed.decoded_range");
}
