/* C09: bidib_set_train_peripheral split into its two halves so that each is cheap:
 *  VP_H_BITS  bidib_get_current_train_peripheral_bits(train, start, end, &byte): afterwards bit (k % 8) of the byte is set exactly for
 *             the configured functions k in [start, end] whose tracked state is 1 (3 configured functions on arbitrary distinct bits)
 *  VP_H_CMD   bidib_set_train_peripheral with that helper replaced by its contract (periph_stub.c: records the requested range,
 *             returns an arbitrary group byte): the range requested is exactly the DCC function group of the commanded bit
 *             (F0-F4: 0..4, F5-F8: 8..11, F9-F12: 12..15, F13-F20: 16..23, F21-F28: 24..31), the message carries that group as
 *             active, the group byte with ONLY the commanded bit replaced, speed 0, the train's address and format, to the track
 *             output's current address; unknown / disconnected / no track output / unknown function: return 1, nothing sent. */
#include "vp_common.h"
#include "vp_syslog.h"
#include <pthread.h>
#define pthread_mutex_lock(m) 0
#define pthread_mutex_unlock(m) 0
#define pthread_rwlock_rdlock(m) 0
#define pthread_rwlock_wrlock(m) 0
#define pthread_rwlock_unlock(m) 0
#define static
#include "src/highlevel/bidib_highlevel_setter.c"
#undef static
#include "vp_glib.h"
gpointer vp_q_fresh(GQueue *q) { return NULL; }
void vp_q_pushed(GQueue *q, gpointer e) {}
void vp_q_popped(GQueue *q, gpointer e) {}
_Bool g_train_known, g_board_known; t_bidib_train g_train; t_bidib_board g_board; t_bidib_train_state_intern g_ts;
unsigned g_drive_calls; t_bidib_node_address g_drive_addr; t_bidib_cs_drive_mod g_drive_params; _Bool g_drive_lock;
t_bidib_train_peripheral_state g_pstate[32];
t_bidib_train *bidib_state_get_train_ref(const char *train) { return g_train_known ? &g_train : NULL; }
t_bidib_board *bidib_state_get_board_ref(const char *board) { return g_board_known ? &g_board : NULL; }
t_bidib_train_state_intern *bidib_state_get_train_state_ref(const char *train) { return &g_ts; }
t_bidib_train_peripheral_state *bidib_state_get_train_peripheral_state_by_bit(const t_bidib_train_state_intern *s, uint8_t bit) { __CPROVER_assert(bit < 32, "C09.function_bits.bit_below_32"); return &g_pstate[bit % 32]; }
unsigned int bidib_get_and_incr_action_id(void) { unsigned a; return a; }
void bidib_send_cs_drive_intern(t_bidib_node_address a, t_bidib_cs_drive_mod p, unsigned int action_id, bool lock) { g_drive_calls++; g_drive_addr = a; g_drive_params = p; g_drive_lock = lock; }
static t_bidib_train_peripheral_mapping maps[3]; static GString ids[3]; static char idc[3][2]; static vp_garray arr; static GString tid; static char tidc[2] = "t";
static void setup(void) {
	VP_IN(_Bool, g_train_known); VP_IN(_Bool, g_board_known); g_drive_calls = 0; g_board.connected = g_board.connected ? 1 : 0; g_board.id = &tid; g_train.id = &tid; tid.str = tidc; tid.len = 1;
	for (int k = 0; k < 3; k++) { idc[k][0] = (char)(0x61 + k); idc[k][1] = 0; ids[k].str = idc[k]; ids[k].len = 1; maps[k].id = &ids[k]; uint8_t b; __CPROVER_assume(b < 32 && (b < 5 || b >= 8)); maps[k].bit = b; }
	__CPROVER_assume(maps[0].bit != maps[1].bit && maps[0].bit != maps[2].bit && maps[1].bit != maps[2].bit);
	arr.data = (gchar *)maps; arr.len = 3; arr.elt_size = sizeof maps[0]; g_train.peripherals = (GArray *)&arr;
	for (int k = 0; k < 32; k++) { uint8_t v; __CPROVER_assume(v <= 1); g_pstate[k].state = v; }
}
#ifdef VP_H_BITS
void vp_harness(void) {
	setup();
	size_t start, end; __CPROVER_assume(start <= end && end <= 31 && start / 8 == end / 8);
	uint8_t byte = 0;
	bidib_get_current_train_peripheral_bits(&g_train, start, end, &byte);
	VP_COVER(byte == 0x05); VP_COVER(byte == 0 && start == 12 && end == 15);
	for (unsigned k = 0; k < 8; k++) {
		unsigned bit = 8 * (unsigned)(start / 8) + k; _Bool want = 0;
		for (int f = 0; f < 3; f++) if (maps[f].bit == bit && bit >= start && bit <= end && g_pstate[bit].state == 1) want = 1;
		__CPROVER_assert(((byte >> k) & 1) == want, "C09.function_bits.bit_set_exactly_for_the_configured_functions_of_the_range_that_are_on");
	}
}
#else
extern size_t vp_h_start, vp_h_end; extern unsigned vp_h_calls; extern uint8_t vp_h_val; extern uint8_t *vp_h_ptr; extern const t_bidib_train *vp_h_train;
void vp_harness(void) {
	setup(); vp_h_calls = 0;
	unsigned in_which; VP_IN(unsigned, in_which); __CPROVER_assume(in_which <= 3);
	uint8_t in_state; VP_IN(uint8_t, in_state); __CPROVER_assume(in_state <= 1);
	static char zz[2] = "z"; zz[0] = 'z'; zz[1] = 0;
	int r = bidib_set_train_peripheral("t", in_which < 3 ? idc[in_which] : zz, in_state, "o");
	_Bool ok = in_which < 3 && g_train_known && g_board_known && g_board.connected && (g_board.unique_id.class_id & (1 << 4));
	VP_COVER(r == 0 && maps[in_which % 3].bit == 15); VP_COVER(r == 1 && in_which == 3 && g_train_known && g_board_known);
	__CPROVER_assert(r == (ok ? 0 : 1) && g_drive_calls == (ok ? 1u : 0u), "C09.peripheral.one_drive_message_iff_known_train_function_and_connected_track_output");
	if (ok) {
		unsigned b = maps[in_which].bit;
		unsigned lo = b < 5 ? 0 : b < 12 ? 8 : b < 16 ? 12 : b < 24 ? 16 : 24, hi = b < 5 ? 4 : b < 12 ? 11 : b < 16 ? 15 : b < 24 ? 23 : 31;
		__CPROVER_assert(vp_h_calls == 1 && vp_h_train == &g_train && vp_h_start == lo && vp_h_end == hi, "C09.peripheral.current_state_of_exactly_the_commanded_function_group_is_read (F0-4, F5-8, F9-12, F13-20, F21-28)");
		uint8_t f[4] = {g_drive_params.function1, g_drive_params.function2, g_drive_params.function3, g_drive_params.function4};
		__CPROVER_assert(g_drive_params.active == (b < 5 ? 2 : b < 12 ? 4 : b < 16 ? 8 : b < 24 ? 16 : 32), "C09.peripheral.only_the_commanded_function_group_is_active");
		__CPROVER_assert(f[b / 8] == (uint8_t)((vp_h_val & ~(1u << (b % 8))) | ((unsigned)in_state << (b % 8))), "C09.peripheral.group_byte_is_the_current_one_with_only_the_commanded_bit_replaced");
		for (unsigned k = 0; k < 4; k++) if (k != b / 8) __CPROVER_assert(f[k] == 0, "C09.peripheral.other_group_bytes_zero");
		__CPROVER_assert(g_drive_params.speed == 0 && g_drive_addr.top == g_board.node_addr.top && g_drive_addr.sub == g_board.node_addr.sub && g_drive_addr.subsub == g_board.node_addr.subsub &&
		                 g_drive_params.dcc_address.addrl == g_train.dcc_addr.addrl && g_drive_params.dcc_address.addrh == g_train.dcc_addr.addrh && !g_drive_lock, "C09.peripheral.to_the_track_outputs_address_with_the_trains_dcc_address");
	}
}
#endif
