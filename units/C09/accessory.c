/* C09: bidib_switch_point / bidib_set_signal / bidib_set_peripheral against the configuration they walk.
 * Configuration (bounded): 2 boards, each with one board accessory, one DCC accessory and one peripheral; every mapping has
 * 2 aspects, every DCC aspect 2 port values.  All ids are single arbitrary characters; accessory ids are pairwise distinct
 * (invariant established by the parser, C14), aspect ids distinct within a mapping.  Content (numbers, ports, values, DCC
 * addresses, node addresses, connected flags) is arbitrary.
 *   found + connected + aspect defined  => return 0, exactly the configured message(s), to the owning board's node address
 *   otherwise                           => return 1, nothing submitted, DCC accessory state unchanged */
#include "vp_common.h"
#include "vp_syslog_eval.h"
#include <pthread.h>
#define pthread_mutex_lock(m) 0
#define pthread_mutex_unlock(m) 0
#define pthread_rwlock_rdlock(m) 0
#define pthread_rwlock_wrlock(m) 0
#define pthread_rwlock_unlock(m) 0
#include "src/highlevel/bidib_highlevel_setter.c"
#include "vp_glib.h"
gpointer vp_q_fresh(GQueue *q) { return NULL; }
void vp_q_pushed(GQueue *q, gpointer e) {}
void vp_q_popped(GQueue *q, gpointer e) {}

#define NB 2
static t_bidib_board boards[NB]; static vp_garray v_boards;
static t_bidib_board_accessory_mapping bacc[NB]; static vp_garray v_bacc[NB];
static t_bidib_dcc_accessory_mapping dacc[NB]; static vp_garray v_dacc[NB];
static t_bidib_peripheral_mapping per[NB]; static vp_garray v_per[NB];
static vp_garray v_empty;
static t_bidib_aspect basp[NB][2], pasp[NB][2]; static vp_garray v_basp[NB], v_pasp[NB];
static t_bidib_dcc_aspect dasp[NB][2]; static vp_garray v_dasp[NB];
static t_bidib_dcc_aspect_port_value pv[NB][2][2]; static vp_garray v_pv[NB][2];
/* ids: [board][kind 0=board accessory,1=dcc accessory,2=peripheral, 3=board id][...] */
static GString s_acc[NB][4]; static char c_acc[NB][4][2];
static GString s_asp[NB][3][2]; static char c_asp[NB][3][2][2];

unsigned n_set, n_cs, n_lc, n_state_lookups;
t_bidib_node_address a_set, a_cs[2], a_lc; uint8_t set_number, set_aspect, lc_p0, lc_p1, lc_val; t_bidib_cs_accessory_mod p_cs[2];
_Bool g_dstate_known, lookup_point, lookup_id_ok; t_bidib_dcc_accessory_state g_dstate; const char *g_in_id;

void bidib_send_accessory_set(t_bidib_node_address a, uint8_t number, uint8_t aspect, unsigned int action_id) { n_set++; a_set = a; set_number = number; set_aspect = aspect; }
void bidib_send_cs_accessory_intern(t_bidib_node_address a, t_bidib_cs_accessory_mod p, unsigned int action_id) { if (n_cs < 2) { a_cs[n_cs] = a; p_cs[n_cs] = p; } n_cs++; }
void bidib_send_lc_output(t_bidib_node_address a, uint8_t port0, uint8_t port1, uint8_t value, unsigned int action_id) { n_lc++; a_lc = a; lc_p0 = port0; lc_p1 = port1; lc_val = value; }
unsigned int bidib_get_and_incr_action_id(void) { unsigned a; return a; }
t_bidib_dcc_accessory_state *bidib_state_get_dcc_accessory_state_ref(const char *id, bool point) {
	n_state_lookups++; lookup_point = point; lookup_id_ok = (id == g_in_id);
	return g_dstate_known ? &g_dstate : NULL;
}
static void mk(vp_garray *v, void *data, guint len, guint elt) { v->data = (gchar *)data; v->len = len; v->elt_size = elt; v->cap = len; }
static void mkid(GString *s, char *c) { char ch; __CPROVER_assume(ch != 0); c[0] = ch; c[1] = 0; s->str = c; s->len = 1; }
static _Bool same_addr(t_bidib_node_address x, t_bidib_node_address y) { return x.top == y.top && x.sub == y.sub && x.subsub == y.subsub; }

static void setup(int kind) {
	mk(&v_boards, boards, NB, sizeof boards[0]); bidib_boards = (GArray *)&v_boards; mk(&v_empty, NULL, 0, 1);
	for (int b = 0; b < NB; b++) {
		for (int k = 0; k < 4; k++) mkid(&s_acc[b][k], c_acc[b][k]);
		for (int k = 0; k < 3; k++) { for (int a = 0; a < 2; a++) mkid(&s_asp[b][k][a], c_asp[b][k][a]); __CPROVER_assume(c_asp[b][k][0][0] != c_asp[b][k][1][0]); }
		boards[b].id = &s_acc[b][3]; boards[b].connected = boards[b].connected ? 1 : 0;
		bacc[b].id = &s_acc[b][0]; dacc[b].id = &s_acc[b][1]; per[b].id = &s_acc[b][2];
		for (int a = 0; a < 2; a++) {
			basp[b][a].id = &s_asp[b][0][a]; dasp[b][a].id = &s_asp[b][1][a]; pasp[b][a].id = &s_asp[b][2][a];
			mk(&v_pv[b][a], pv[b][a], 2, sizeof pv[0][0][0]); dasp[b][a].port_values = (GArray *)&v_pv[b][a];
			for (int q = 0; q < 2; q++) __CPROVER_assume(pv[b][a][q].value <= 1);   /* parser: port value is 0 or 1 */
		}
		__CPROVER_assume(dacc[b].extended_accessory <= 1);                            /* parser: flag */
		mk(&v_basp[b], basp[b], 2, sizeof basp[0][0]); bacc[b].aspects = (GArray *)&v_basp[b];
		mk(&v_dasp[b], dasp[b], 2, sizeof dasp[0][0]); dacc[b].aspects = (GArray *)&v_dasp[b];
		mk(&v_pasp[b], pasp[b], 2, sizeof pasp[0][0]); per[b].aspects = (GArray *)&v_pasp[b];
		mk(&v_bacc[b], &bacc[b], 1, sizeof bacc[0]); mk(&v_dacc[b], &dacc[b], 1, sizeof dacc[0]); mk(&v_per[b], &per[b], 1, sizeof per[0]);
		boards[b].points_board = boards[b].points_dcc = boards[b].signals_board = boards[b].signals_dcc = boards[b].peripherals = (GArray *)&v_empty;
		if (kind == 0) { boards[b].points_board = (GArray *)&v_bacc[b]; boards[b].points_dcc = (GArray *)&v_dacc[b]; }
		if (kind == 1) { boards[b].signals_board = (GArray *)&v_bacc[b]; boards[b].signals_dcc = (GArray *)&v_dacc[b]; }
		if (kind == 2) boards[b].peripherals = (GArray *)&v_per[b];
	}
	/* accessory ids pairwise distinct over the whole configuration */
	__CPROVER_assume(c_acc[0][0][0] != c_acc[0][1][0] && c_acc[0][0][0] != c_acc[1][0][0] && c_acc[0][0][0] != c_acc[1][1][0] &&
	                 c_acc[0][1][0] != c_acc[1][0][0] && c_acc[0][1][0] != c_acc[1][1][0] && c_acc[1][0][0] != c_acc[1][1][0] && c_acc[0][2][0] != c_acc[1][2][0]);
	VP_IN(_Bool, g_dstate_known); _Bool had; g_dstate.data.state_id = had ? malloc(2) : NULL;
	n_set = n_cs = n_lc = n_state_lookups = 0;
}

void vp_harness(void) {
	setup(VP_KIND);
	static char in_id[2], in_asp[2]; _Bool null_id, null_asp;
	VP_IN(char, in_id[0]); VP_IN(char, in_asp[0]); in_id[1] = in_asp[1] = 0; g_in_id = in_id;
	char *before_state = g_dstate.data.state_id;
#if VP_KIND == 0
	int r = bidib_switch_point(null_id ? NULL : in_id, null_asp ? NULL : in_asp);
#elif VP_KIND == 1
	int r = bidib_set_signal(null_id ? NULL : in_id, null_asp ? NULL : in_asp);
#else
	int r = bidib_set_peripheral(null_id ? NULL : in_id, null_asp ? NULL : in_asp);
#endif
	/* oracle: the unique mapping with that id, the aspect of that mapping with that id */
	int ob = -1, ok_kind = -1, oa = -1;
	if (!null_id && !null_asp && in_id[0] != 0)
		for (int b = 0; b < NB; b++) for (int k = (VP_KIND == 2 ? 2 : 0); k < (VP_KIND == 2 ? 3 : 2); k++) if (c_acc[b][k][0] == in_id[0]) { ob = b; ok_kind = k; }
	if (ob >= 0) for (int a = 0; a < 2; a++) if (c_asp[ob][ok_kind][a][0] == in_asp[0]) oa = a;
	_Bool ok = ob >= 0 && boards[ob].connected && oa >= 0;
	VP_COVER(ok && ob == 1 && oa == 1 && ok_kind != 0); VP_COVER(ok && ok_kind == (VP_KIND == 2 ? 2 : 0)); VP_COVER(ob >= 0 && !ok); VP_COVER(ob < 0);
	if (!ok) {
		__CPROVER_assert(r == 1, "C09.accessory_cmd.unknown_disconnected_or_undefined_aspect_returns_1");
		__CPROVER_assert(n_set == 0 && n_cs == 0 && n_lc == 0, "C09.accessory_cmd.nothing_submitted_on_error");
		__CPROVER_assert(g_dstate.data.state_id == before_state, "C09.accessory_cmd.state_unchanged_on_error");
	} else if (ok_kind == 0) {
		__CPROVER_assert(r == 0 && n_set == 1 && n_cs == 0 && n_lc == 0, "C09.accessory_cmd.board_accessory_exactly_one_accessory_set_message");
		__CPROVER_assert(same_addr(a_set, boards[ob].node_addr) && set_number == bacc[ob].number && set_aspect == basp[ob][oa].value, "C09.accessory_cmd.board_accessory_message_has_owning_board_address_configured_number_and_aspect_value");
	} else if (ok_kind == 2) {
		__CPROVER_assert(r == 0 && n_lc == 1 && n_set == 0 && n_cs == 0, "C09.peripheral_cmd.exactly_one_lc_output_message");
		__CPROVER_assert(same_addr(a_lc, boards[ob].node_addr) && lc_p0 == per[ob].port.port0 && lc_p1 == per[ob].port.port1 && lc_val == pasp[ob][oa].value, "C09.peripheral_cmd.message_has_owning_board_address_configured_port_and_aspect_value");
	} else {
		__CPROVER_assert(n_cs == 2 && n_set == 0 && n_lc == 0, "C09.accessory_cmd.dcc_accessory_one_message_per_configured_port");
		for (int q = 0; q < 2; q++)
			__CPROVER_assert(same_addr(a_cs[q], boards[ob].node_addr) && p_cs[q].dcc_address.addrl == dacc[ob].dcc_addr.addrl && p_cs[q].dcc_address.addrh == dacc[ob].dcc_addr.addrh && p_cs[q].time == 0 &&
			                 p_cs[q].data == (uint8_t)((pv[ob][oa][q].port & 0x1F) | (pv[ob][oa][q].value << 5) | (dacc[ob].extended_accessory << 7)), "C09.accessory_cmd.dcc_message_has_owning_board_address_dcc_address_and_port_value_extended_bits");
		__CPROVER_assert(n_state_lookups == 1 && lookup_id_ok && lookup_point == (VP_KIND == 0), "C09.accessory_cmd.dcc_state_looked_up_for_the_commanded_accessory");
		if (g_dstate_known) __CPROVER_assert(r == 0 && g_dstate.data.state_id != NULL && g_dstate.data.state_id[0] == in_asp[0] && g_dstate.data.state_id[1] == 0, "C09.accessory_cmd.dcc_optimistic_state_is_the_commanded_aspect");
	}
}
