from vpkg.core import Unit
from vpkg import csrc
_t = csrc.Tree()
_u = [f.name for f in _t.by_file[csrc.REPO + "/src/highlevel/bidib_highlevel_util.c"]]
_keep = ["bidib_stop", "bidib_start_pointer", "bidib_init_threads", "bidib_init_rwlocks", "bidib_init_mutexes", "bidib_set_lowlevel_debug_mode"]
UNITS = [
    Unit(name="C16.stop", src="units/C16/lifecycle.c", defines=["VP_H_STOP"], functions=["bidib_stop"], props=["C16"], no_dfcc=True,
         remove_bodies=[f for f in _u if f not in _keep], extra_flags=["--unwind", "10"], covers=2, min_obligations=8,
         stubbed_contracts=["pthread_create / pthread_join (ghost thread ledger)", "<12 callees of bidib_stop: event-recording contracts>"], note="loop-free: complete over every consistent entry state"),
    Unit(name="C16.sessions", src="units/C16/lifecycle.c", defines=["VP_H_SESSIONS"], functions=["bidib_start_pointer", "bidib_init_threads", "bidib_stop"], props=["C16", "C13"], no_dfcc=True,
         remove_bodies=[f for f in _u if f not in _keep], extra_flags=["--unwind", "10"], covers=1, min_obligations=8,
         stubbed_contracts=["pthread_create / pthread_join (ghost thread ledger)", "bidib_state_init (ok / error)", "bidib_communication_works (yes / no)"],
         note="two sessions from process start; every flush interval, config ok/bad, interface answering or not, debug mode on/off; loop-free: complete"),
    Unit(name="C16.table_reset", src="units/C16/table_reset.c", functions=["bidib_node_state_table_reset"], props=["C16"], no_dfcc=True,
         kind="bounded", bound="one node, each of its three queues holds <= 2 (arbitrary) entries; loops unwound completely for that size",
         remove_bodies=[f.name for f in _t.by_file[csrc.REPO + "/src/transmission/bidib_transmission_node_states.c"] if f.name != "bidib_node_state_table_reset"],
         extra_flags=["--nondet-static", "--unwind", "5"], covers=1, min_obligations=6, timeout=300,
         stubbed_contracts=["GHashTable iteration (one node)", "GQueue lazy model"]),
    Unit(name="C16.reset_train_params", src="units/C16/reset.c", functions=["bidib_state_reset_train_params"], props=["C16"], no_dfcc=True, kind="bounded",
         bound="2 trains x 3 boards with arbitrary content (distinct DCC / node addresses); loops unwound completely",
         remove_bodies=[f.name for f in _t.by_file[csrc.REPO + "/src/state/bidib_state.c"] if f.name != "bidib_state_reset_train_params"],
         extra_flags=["--nondet-static", "--unwind", "5"], covers=3, min_obligations=4, timeout=300,
         stubbed_contracts=["bidib_send_cs_drive_intern (recording)"]),
]
