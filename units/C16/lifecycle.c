/* C16: bidib_stop / bidib_start_pointer lifecycle at contract level.
 * Thread model (ghost): pthread_create gives the handle a fresh non-zero id and marks it live; pthread_join must be given a live,
 * not yet joined id and marks it joined.  Every other callee is an event-recording contract.
 *  VP_H_STOP      one bidib_stop from an arbitrary consistent state: shutdown traffic in the documented order before the threads end,
 *                 each live thread joined exactly once, memory released after the joins; stop while stopped does nothing.
 *  VP_H_SESSIONS  start(flush f1, config ok/bad, interface answering or not); stop; start(flush f2, ...); stop  - every pthread_join
 *                 gets a live thread, and after each stop no thread is left alive (joined exactly once), for every combination. */
#include "vp_common.h"
#include "vp_syslog.h"
#include <pthread.h>
#include <unistd.h>
#include <syslog.h>
#define NT 8
unsigned g_next_id; _Bool g_live[NT]; unsigned g_joins_bad; unsigned g_joined_count, g_created_count;
unsigned g_ev; unsigned g_seq[32]; unsigned g_n;
static void ev(unsigned e) { if (g_n < 32) g_seq[g_n] = e; g_n++; }
int vp_create(pthread_t *t) { unsigned id = ++g_next_id; __CPROVER_assume(id < NT); *t = (pthread_t)id; g_live[id] = 1; g_created_count++; return 0; }
int vp_join(pthread_t t) {
	unsigned long id = (unsigned long)t;
	__CPROVER_assert(id != 0 && id < NT && g_live[id % NT], "C16.join_only_threads_that_are_alive (not joined before, created in this process)");
	if (!(id != 0 && id < NT && g_live[id % NT])) g_joins_bad++; else g_live[id] = 0;
	g_joined_count++; ev(20);
	return 0;
}
#define pthread_create(t, a, f, x) vp_create(t)
#define pthread_join(t, r) vp_join(t)
#define pthread_mutex_lock(m) 0
#define pthread_mutex_unlock(m) 0
#define pthread_mutex_init(m, a) 0
#define pthread_rwlock_init(m, a) 0
#define pthread_rwlock_rdlock(m) 0
#define pthread_rwlock_wrlock(m) 0
#define pthread_rwlock_unlock(m) 0
#define usleep(x) ((void)0)
#define openlog(a, b, c) ((void)0)
#define closelog() ((void)0)
#undef syslog_libbidib
#include "src/highlevel/bidib_highlevel_util.c"

enum { E_SOFTSTOP = 1, E_FLUSH, E_TRAIN_PARAMS, E_OFF, E_JOIN = 20, E_SERIAL_CLOSE = 30, E_FREE_NODES, E_FREE_Q, E_FREE_EQ, E_FREE_IQ, E_FREE_STATE, E_OTHER = 99 };
_Bool g_cfg_bad, g_comm_ok; _Bool g_running_at_traffic;
void bidib_set_track_output_state_all(t_bidib_cs_state s) { ev(s == BIDIB_CS_SOFTSTOP ? E_SOFTSTOP : s == BIDIB_CS_OFF ? E_OFF : E_OTHER); g_running_at_traffic = bidib_running; }
void bidib_flush(void) { ev(E_FLUSH); }
void bidib_state_reset_train_params(void) { ev(E_TRAIN_PARAMS); }
void bidib_serial_port_close(void) { ev(E_SERIAL_CLOSE); }
void bidib_node_state_table_free(void) { ev(E_FREE_NODES); }
void bidib_uplink_queue_free(void) { ev(E_FREE_Q); }
void bidib_uplink_error_queue_free(void) { ev(E_FREE_EQ); }
void bidib_uplink_intern_queue_free(void) { ev(E_FREE_IQ); }
void bidib_state_free(void) { ev(E_FREE_STATE); }
void bidib_node_state_table_init(void) {}
int bidib_state_init(const char *d) { return g_cfg_bad ? 1 : 0; }
void bidib_set_read_src(uint8_t (*r)(int *)) {}
void bidib_set_write_n_dest(void (*w)(uint8_t *, int32_t)) {}
bool bidib_communication_works(void) { return g_comm_ok; }
void bidib_send_sys_reset(unsigned int a) {}
static uint8_t rd(int *ok) { *ok = 0; return 0; }
static void wr(uint8_t *b, int32_t n) {}

#ifdef VP_H_STOP
void vp_harness(void) {
	_Bool run; bidib_running = run ? 1 : 0; _Bool was = bidib_running;
	/* consistent state: a non-zero handle names a live thread */
	g_next_id = 0; for (int k = 0; k < NT; k++) g_live[k] = 0;
	_Bool h1, h2, h3; bidib_receiver_thread = 0; bidib_autoflush_thread = 0; bidib_heartbeat_thread = 0;
	if (h1) vp_create(&bidib_receiver_thread); if (h2) vp_create(&bidib_autoflush_thread); if (h3) vp_create(&bidib_heartbeat_thread);
	unsigned created = g_created_count = (h1 ? 1 : 0) + (h2 ? 1 : 0) + (h3 ? 1 : 0);
	g_n = 0; g_joined_count = 0; g_joins_bad = 0;
	bidib_stop();
	VP_COVER(was && created == 3);
	VP_COVER(!was);
	if (!was) { __CPROVER_assert(g_n == 0 && !bidib_running, "C16.stop.stop_while_stopped_does_nothing"); return; }
	__CPROVER_assert(!bidib_running, "C16.stop.library_marked_stopped");
	__CPROVER_assert(g_seq[0] == E_SOFTSTOP && g_seq[1] == E_FLUSH && g_seq[2] == E_TRAIN_PARAMS && g_seq[3] == E_FLUSH && g_seq[4] == E_OFF && g_seq[5] == E_FLUSH,
	                 "C16.stop.softstop_flush_zero_speed_flush_off_flush_in_this_order");
	__CPROVER_assert(g_running_at_traffic, "C16.stop.shutdown_traffic_sent_while_the_threads_still_run");
	__CPROVER_assert(g_joined_count == created && g_joins_bad == 0, "C16.stop.every_live_thread_joined_exactly_once");
	for (int k = 0; k < NT; k++) __CPROVER_assert(!g_live[k], "C16.stop.no_thread_left_running");
	unsigned j = 6 + created;
	__CPROVER_assert(g_n == j + 6 && g_seq[j] == E_SERIAL_CLOSE && g_seq[j + 1] == E_FREE_NODES && g_seq[j + 2] == E_FREE_Q && g_seq[j + 3] == E_FREE_EQ && g_seq[j + 4] == E_FREE_IQ && g_seq[j + 5] == E_FREE_STATE,
	                 "C16.stop.memory_released_after_the_threads_ended");
}
#endif
#ifdef VP_H_SESSIONS
void vp_harness(void) {
	bidib_running = 0; bidib_receiver_thread = 0; bidib_autoflush_thread = 0; bidib_heartbeat_thread = 0;   /* process start */
	g_next_id = 0; for (int k = 0; k < NT; k++) g_live[k] = 0; g_joins_bad = 0; g_created_count = 0; g_joined_count = 0;
	unsigned f1, f2; _Bool dbg; bidib_lowlevel_debug_mode = dbg ? 1 : 0;
	VP_IN(_Bool, g_cfg_bad); VP_IN(_Bool, g_comm_ok);
	int r1 = bidib_start_pointer(rd, wr, "cfg", f1);
	__CPROVER_assert(r1 == 0 || r1 == 1, "C16.start.returns_0_or_1");
	__CPROVER_assert(r1 == 0 || !bidib_running, "C16.start.failed_start_leaves_the_library_stopped");
	if (r1 == 0) {
		/* start while running - with valid or with rejected arguments - does nothing: no thread created or joined, session stays up */
		unsigned c0 = g_created_count, j0 = g_joined_count; _Bool bad_args; unsigned f3;
		int r3 = bidib_start_pointer(bad_args ? NULL : rd, wr, "cfg", f3);
		__CPROVER_assert(bidib_running && g_created_count == c0 && g_joined_count == j0, "C16.start.start_while_running_does_nothing (also when its arguments are rejected)");
		__CPROVER_assert(r3 == (bad_args ? 1 : 0), "C16.start.start_while_running_reports_only_its_own_arguments");
	}
	bidib_stop();
	for (int k = 0; k < NT; k++) __CPROVER_assert(!g_live[k], "C16.sessions.no_thread_survives_the_first_stop");
	_Bool cfg2, comm2; g_cfg_bad = cfg2; g_comm_ok = comm2;
	int r2 = bidib_start_pointer(rd, wr, "cfg", f2);
	bidib_stop();
	VP_COVER(f1 > 0 && f2 == 0 && r1 == 0 && r2 == 0);
	for (int k = 0; k < NT; k++) __CPROVER_assert(!g_live[k], "C16.sessions.no_thread_survives_the_second_stop");
	__CPROVER_assert(g_joins_bad == 0 && g_joined_count == g_created_count, "C16.sessions.each_thread_joined_exactly_once_across_sessions_with_any_auto_flush_setting");
}
#endif
