/* C16 (bounded stand-in): bidib_node_state_table_reset releases everything a node state owns - every stall-list entry, every
 * outstanding-response entry, every deferred-message entry AND its message buffer, the three queues and the state itself - each
 * exactly once (CBMC's free model: double free / invalid free are obligations; the counters show nothing is skipped).
 * One node in the table, each queue holds <= 2 entries (lazy queue abstraction: arbitrary entries). */
#include "vp_common.h"
#include "vp_syslog.h"
#include <pthread.h>
#include <time.h>
#define pthread_mutex_lock(m) 0
#define pthread_mutex_unlock(m) 0
unsigned g_free_calls; unsigned g_msgbuf_frees; void *g_msgbufs[4]; unsigned g_nmsgbufs;
void vp_free3(void *p);
#define free(p) vp_free3(p)
#include "src/transmission/bidib_transmission_node_states.c"
#undef free
#include "vp_glib.h"
void vp_free3(void *p) { g_free_calls++; for (unsigned k = 0; k < 4; k++) if (k < g_nmsgbufs && g_msgbufs[k] == p) g_msgbuf_frees++; free(p); }
t_bidib_node_state *g_state; unsigned g_qfrees; unsigned g_iter; unsigned g_removed;
gpointer vp_q_fresh(GQueue *q) {
	if (q == g_state->message_queue) {
		t_bidib_message_queue_entry *e = malloc(sizeof *e); __CPROVER_assume(e != NULL);
		e->message = malloc(4); __CPROVER_assume(e->message != NULL);
		if (g_nmsgbufs < 4) g_msgbufs[g_nmsgbufs] = e->message; g_nmsgbufs++;
		return e;
	}
	void *e = malloc(q == g_state->response_queue ? sizeof(t_bidib_response_queue_entry) : sizeof(t_bidib_stall_queue_entry)); __CPROVER_assume(e != NULL);
	return e;
}
void vp_q_pushed(GQueue *q, gpointer e) {}
void vp_q_popped(GQueue *q, gpointer e) {}
void g_hash_table_iter_init(GHashTableIter *iter, GHashTable *t) { g_iter = 0; }
gboolean g_hash_table_iter_next(GHashTableIter *iter, gpointer *key, gpointer *value) { if (g_iter == 0) { g_iter = 1; *key = g_state->addr; *value = g_state; return TRUE; } return FALSE; }
void g_hash_table_iter_remove(GHashTableIter *iter) { g_removed++; }
void vp_harness(void) {
	g_state = malloc(sizeof *g_state); __CPROVER_assume(g_state != NULL);
	g_state->response_queue = g_queue_new(); g_state->message_queue = g_queue_new(); g_state->stall_affected_nodes_queue = g_queue_new();
	guint a, b, c; __CPROVER_assume(a <= 2 && b <= 2 && c <= 2);
	g_nmsgbufs = 0;
	g_state->stall_affected_nodes_queue->length = a; if (a) g_state->stall_affected_nodes_queue->head = (GList *)vp_q_fresh(g_state->stall_affected_nodes_queue);
	g_state->response_queue->length = b; if (b) g_state->response_queue->head = (GList *)vp_q_fresh(g_state->response_queue);
	g_state->message_queue->length = c; if (c) g_state->message_queue->head = (GList *)vp_q_fresh(g_state->message_queue);
	g_free_calls = 0; g_msgbuf_frees = 0; g_removed = 0;
	_Bool lock;
	bidib_node_state_table_reset(lock);
	VP_COVER(a == 2 && b == 2 && c == 2);
	__CPROVER_assert(g_msgbuf_frees == c && g_nmsgbufs == c, "C16.table_reset.every_deferred_message_buffer_released_exactly_once");
	__CPROVER_assert(g_free_calls == a + b + 2 * c + 1, "C16.table_reset.every_entry_every_message_buffer_and_the_node_state_released_exactly_once");
	__CPROVER_assert(g_removed == 1, "C16.table_reset.node_removed_from_the_table");
}
