/* C16 ("stop leaves the layout safe"): bidib_state_reset_train_params - at stop EVERY connected track output gets, for EVERY
 * configured train, exactly one drive command with the train's DCC address and speed-step format, nothing active (which the
 * state setter and the decoder read as: speed 0, forwards, all functions off), and nothing else is sent.
 * Bounded stand-in: 2 trains x 3 boards, arbitrary content. */
#include "vp_common.h"
#include "vp_syslog.h"
#include <pthread.h>
#define pthread_mutex_lock(m) 0
#define pthread_mutex_unlock(m) 0
#define pthread_rwlock_rdlock(m) 0
#define pthread_rwlock_wrlock(m) 0
#define pthread_rwlock_unlock(m) 0
#include "src/state/bidib_state.c"
#include "vp_glib.h"
gpointer vp_q_fresh(GQueue *q) { return NULL; }
void vp_q_pushed(GQueue *q, gpointer e) {}
void vp_q_popped(GQueue *q, gpointer e) {}
#define NT 2
#define NB 3
static t_bidib_train trains[NT]; static t_bidib_board boards[NB]; static vp_garray v_t, v_b;
unsigned g_sends, g_watch_sends, g_bad; unsigned g_wt, g_wb;
static _Bool addr_eq(t_bidib_node_address x, t_bidib_node_address y) { return x.top == y.top && x.sub == y.sub && x.subsub == y.subsub; }
void bidib_send_cs_drive_intern(t_bidib_node_address a, t_bidib_cs_drive_mod p, unsigned int action_id, bool lock) {
	g_sends++;
	if (lock) g_bad++;                                 /* the trains lock is already held by the caller */
	if (p.active != 0 || p.speed != 0 || p.function1 != 0 || p.function2 != 0 || p.function3 != 0 || p.function4 != 0) g_bad++;
	if (addr_eq(a, boards[g_wb].node_addr) && p.dcc_address.addrl == trains[g_wt].dcc_addr.addrl && p.dcc_address.addrh == trains[g_wt].dcc_addr.addrh) {
		g_watch_sends++;
		uint8_t st = trains[g_wt].dcc_speed_steps;
		if (p.dcc_format != (st == 28 ? 0x02 : st == 126 ? 0x03 : 0x00)) g_bad++;
	}
}
void vp_harness(void) {
	guint nt, nb; __CPROVER_assume(nt <= NT && nb <= NB);
	v_t.data = (gchar *)trains; v_t.len = nt; v_t.elt_size = sizeof trains[0]; bidib_trains = (GArray *)&v_t;
	v_b.data = (gchar *)boards; v_b.len = nb; v_b.elt_size = sizeof boards[0]; bidib_boards = (GArray *)&v_b;
	for (int b = 0; b < NB; b++) boards[b].connected = boards[b].connected ? 1 : 0;
	/* configuration invariants (C14): trains have distinct DCC addresses, boards distinct node addresses */
	__CPROVER_assume(!(trains[0].dcc_addr.addrl == trains[1].dcc_addr.addrl && trains[0].dcc_addr.addrh == trains[1].dcc_addr.addrh));
	__CPROVER_assume(!addr_eq(boards[0].node_addr, boards[1].node_addr) && !addr_eq(boards[0].node_addr, boards[2].node_addr) && !addr_eq(boards[1].node_addr, boards[2].node_addr));
	VP_IN(unsigned, g_wt); VP_IN(unsigned, g_wb); __CPROVER_assume(g_wt < NT && g_wb < NB);
	g_sends = g_watch_sends = g_bad = 0;
	bidib_state_reset_train_params();
	unsigned ncs = 0; for (unsigned b = 0; b < NB; b++) if (b < nb && boards[b].connected && (boards[b].unique_id.class_id & (1 << 4))) ncs++;
	_Bool w_is_cs = g_wb < nb && boards[g_wb].connected && (boards[g_wb].unique_id.class_id & (1 << 4));
	VP_COVER(ncs == 2 && nt == 2 && g_wb == 2 && w_is_cs); VP_COVER(ncs == 0 && nb == 3); VP_COVER(nt == 0);
	__CPROVER_assert(g_watch_sends == ((g_wt < nt && w_is_cs) ? 1u : 0u), "C16.reset.every_train_is_stopped_on_every_connected_track_output_exactly_once");
	__CPROVER_assert(g_sends == nt * ncs, "C16.reset.nothing_else_is_sent");
	__CPROVER_assert(g_bad == 0, "C16.reset.commands_are_speed_0_no_function_with_the_trains_format");
}
