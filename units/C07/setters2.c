/* C07 / C12: further state setters against their effect contracts; the lookup helpers are replaced by "NULL or an arbitrary element",
 * wire-supplied values are arbitrary, list arguments are heap objects of exactly the announced length (memory safety = C12).
 * Logging arguments ARE evaluated here (stubs/vp_syslog_eval.h). */
#include "vp_common.h"
#include "vp_syslog_eval.h"
#include <pthread.h>
#include <time.h>
#define pthread_mutex_lock(m) 0
#define pthread_mutex_unlock(m) 0
#define pthread_rwlock_rdlock(m) 0
#define pthread_rwlock_wrlock(m) 0
#define pthread_rwlock_unlock(m) 0
#define clock_gettime(id, ts) ((ts)->tv_sec = 0, (ts)->tv_nsec = 0, 0)
#include "src/state/bidib_state_setter.c"
#include "src/transmission/bidib_transmission_message_string_mapping.c"
#include "vp_glib.h"
gpointer vp_q_fresh(GQueue *q) { return NULL; }
void vp_q_pushed(GQueue *q, gpointer e) {}
void vp_q_popped(GQueue *q, gpointer e) {}
#define B01(x) ((x) = (x) ? 1 : 0)
_Bool g_known, g_known2; t_bidib_booster_state g_boo; t_bidib_track_output_state g_to; t_bidib_train_state_intern g_ts; t_bidib_peripheral_state g_per; t_bidib_peripheral_mapping g_pm;
t_bidib_reverser_mapping g_rm; t_bidib_reverser_state g_rev; t_bidib_dcc_accessory_mapping g_dm; t_bidib_dcc_accessory_state g_dacc;
static GString gid; static char gidc[2] = "i"; static char g_sid[2] = "s";
t_bidib_booster_state *bidib_state_get_booster_state_ref_by_nodeaddr(t_bidib_node_address a) { return g_known ? &g_boo : NULL; }
t_bidib_track_output_state *bidib_state_get_track_output_state_ref_by_nodeaddr(t_bidib_node_address a) { return g_known ? &g_to : NULL; }
t_bidib_train_state_intern *bidib_state_get_train_state_ref_by_dccaddr(t_bidib_dcc_address a) { return g_known ? &g_ts : NULL; }
t_bidib_peripheral_mapping *bidib_state_get_peripheral_mapping_ref_by_port(t_bidib_node_address a, t_bidib_peripheral_port p) { return g_known ? &g_pm : NULL; }
t_bidib_peripheral_state *bidib_state_get_peripheral_state_ref(const char *p) { return g_known2 ? &g_per : NULL; }
t_bidib_reverser_mapping *bidib_state_get_reverser_mapping_ref_by_cv(t_bidib_node_address a, const char *cv) { return g_known ? &g_rm : NULL; }
t_bidib_reverser_state *bidib_state_get_reverser_state_ref(const char *r) { return g_known2 ? &g_rev : NULL; }
t_bidib_dcc_accessory_mapping *bidib_state_get_dcc_accessory_mapping_ref_by_dccaddr(t_bidib_node_address a, t_bidib_dcc_address d, bool *point) { *point = 1; return g_known ? &g_dm : NULL; }
t_bidib_dcc_accessory_state *bidib_state_get_dcc_accessory_state_ref(const char *a, bool point) { return g_known2 ? &g_dacc : NULL; }
bool bidib_state_dcc_addr_in_use(t_bidib_dcc_address a) { _Bool r; return r; }
t_bidib_booster_power_state_simple bidib_booster_normal_to_simple(t_bidib_booster_power_state s) {
	return (s == 0x80 || s == 0x81 || s == 0x82 || s == 0x84) ? BIDIB_BSTR_SIMPLE_ON : (s == 0 || s == 3 || s == 4 || s == 5 || s == 6) ? BIDIB_BSTR_SIMPLE_OFF : BIDIB_BSTR_SIMPLE_ERROR;
}
/* libc model: strndup copies at most n bytes up to the first NUL and terminates the copy */
char *strndup(const char *src, size_t n) {
	char *d = malloc(n + 1); __CPROVER_assume(d != NULL);
	size_t k = 0;
	for (; k < n && k < 13; k++) { char c = src[k]; if (c == 0) break; d[k] = c; }
	d[k] = 0;
	return d;
}
static unsigned spec_ma(unsigned c) { return c == 0 ? 0 : c < 16 ? c : c < 64 ? (c - 12) * 4 : c < 128 ? (c - 51) * 16 : c < 192 ? (c - 108) * 64 : (c - 171) * 256; }

void vp_harness(void) {
	VP_IN(_Bool, g_known); VP_IN(_Bool, g_known2);
	t_bidib_node_address a; gidc[0] = (char)0x69; gidc[1] = 0; gid.str = gidc; gid.len = 1;   /* --nondet-static havocs initialisers */
#if defined(VP_H_BOOST_STATE)
	uint8_t in_s; VP_IN(uint8_t, in_s);
	t_bidib_booster_state before = g_boo;
	bidib_state_boost_state(a, in_s);
	VP_COVER(g_known); VP_COVER(!g_known);
	if (g_known) __CPROVER_assert(g_boo.data.power_state == (t_bidib_booster_power_state)in_s && g_boo.data.power_state_simple == bidib_booster_normal_to_simple((t_bidib_booster_power_state)in_s), "C07.boost_state.power_state_and_its_simple_class_are_the_reported_ones");
	else __CPROVER_assert(g_boo.data.power_state == before.data.power_state && g_boo.data.power_state_simple == before.data.power_state_simple, "C07.boost_state.unknown_booster_changes_nothing");
	__CPROVER_assert(g_boo.data.voltage == before.data.voltage && g_boo.data.temp_celsius == before.data.temp_celsius && g_boo.data.power_consumption.current == before.data.power_consumption.current && g_boo.id == before.id, "C07.boost_state.changes_nothing_else");
#elif defined(VP_H_CS_STATE)
	uint8_t in_s; VP_IN(uint8_t, in_s);
	t_bidib_track_output_state before = g_to;
	bidib_state_cs_state(a, in_s, 0);
	VP_COVER(g_known && in_s == 0xFF); VP_COVER(!g_known);
	__CPROVER_assert(g_to.cs_state == (g_known ? (t_bidib_cs_state)in_s : before.cs_state) && g_to.id == before.id, "C07.cs_state.track_output_state_is_the_reported_one_unknown_node_changes_nothing");
#elif defined(VP_H_CS_DRIVE_ACK)
	uint8_t in_ack; VP_IN(uint8_t, in_ack); t_bidib_dcc_address d; g_ts.id = &gid;
	t_bidib_train_state_intern before = g_ts;
	bidib_state_cs_drive_ack(d, in_ack, 0);
	VP_COVER(g_known); VP_COVER(!g_known);
	__CPROVER_assert(g_ts.ack == (g_known ? (t_bidib_cs_ack)in_ack : before.ack), "C07.cs_drive_ack.train_ack_is_the_reported_one_unknown_address_changes_nothing");
	__CPROVER_assert(g_ts.set_speed_step == before.set_speed_step && g_ts.on_track == before.on_track && g_ts.orientation == before.orientation, "C07.cs_drive_ack.changes_nothing_else");
#elif defined(VP_H_CS_ACCESSORY_ACK)
	uint8_t in_ack; VP_IN(uint8_t, in_ack); t_bidib_dcc_address d; g_dm.id = &gid;
	t_bidib_dcc_accessory_state before = g_dacc;
	bidib_state_cs_accessory_ack(a, d, in_ack);
	VP_COVER(g_known && g_known2); VP_COVER(!g_known);
	__CPROVER_assert(g_dacc.data.ack == ((g_known && g_known2) ? (t_bidib_cs_ack)in_ack : before.data.ack), "C07.cs_accessory_ack.accessory_ack_is_the_reported_one_unknown_address_changes_nothing");
	__CPROVER_assert(g_dacc.data.state_value == before.data.state_value && g_dacc.data.state_id == before.data.state_id && g_dacc.data.switch_time == before.data.switch_time, "C07.cs_accessory_ack.changes_nothing_else");
#elif defined(VP_H_LC_WAIT)
	uint8_t in_t; VP_IN(uint8_t, in_t); t_bidib_peripheral_port p; g_pm.id = &gid;
	t_bidib_peripheral_state before = g_per;
	bidib_state_lc_wait(a, p, in_t);
	VP_COVER(g_known && g_known2 && (in_t & 0x80)); VP_COVER(!g_known);
	if (g_known && g_known2) __CPROVER_assert(g_per.data.wait == (in_t & 0x7F) && g_per.data.time_unit == ((in_t & 0x80) ? BIDIB_TIMEUNIT_SECONDS : BIDIB_TIMEUNIT_MILLISECONDS), "C07.lc_wait.wait_time_and_unit_from_the_reported_byte");
	else __CPROVER_assert(g_per.data.wait == before.data.wait && g_per.data.time_unit == before.data.time_unit, "C07.lc_wait.unknown_port_changes_nothing");
	__CPROVER_assert(g_per.data.state_value == before.data.state_value && g_per.data.state_id == before.data.state_id, "C07.lc_wait.changes_nothing_else");
#elif defined(VP_H_DIAGNOSTIC)
	uint8_t in_len; VP_IN(uint8_t, in_len); __CPROVER_assume(in_len <= 6);      /* bounded stand-in: at most 3 (key, value) pairs */
	uint8_t *list = malloc(in_len); __CPROVER_assume(list != NULL);
	B01(g_boo.data.voltage_known); B01(g_boo.data.temp_known); B01(g_boo.data.power_consumption.known); B01(g_boo.data.power_consumption.overcurrent);
	t_bidib_booster_state e = g_boo;          /* expected: fold of the (key, value) pairs */
	for (unsigned k = 0; k + 1 < in_len && k < 6; k += 2) {
		uint8_t key = list[k], v = list[k + 1];
		if (key == 0) { if (v <= 250) { e.data.power_consumption.known = 1; e.data.power_consumption.overcurrent = 0; e.data.power_consumption.current = spec_ma(v); }
		                else if (v == 254) { e.data.power_consumption.known = 1; e.data.power_consumption.overcurrent = 1; } else e.data.power_consumption.known = 0; }
		else if (key == 1) { if (v < 251) { e.data.voltage_known = 1; e.data.voltage = v; } else e.data.voltage_known = 0; }
		else if (key == 2) { e.data.temp_known = 1; e.data.temp_celsius = (int8_t)v; }
	}
	bidib_state_boost_diagnostic(a, in_len, list, 0);
	VP_COVER(g_known && in_len == 6); VP_COVER(!g_known);
	if (!g_known) e = e, e = g_boo;   /* unknown booster: nothing changes (checked against the unchanged copy below) */
	__CPROVER_assert(g_boo.data.power_consumption.known == e.data.power_consumption.known && g_boo.data.power_consumption.overcurrent == e.data.power_consumption.overcurrent &&
	                 (!e.data.power_consumption.known || e.data.power_consumption.overcurrent || g_boo.data.power_consumption.current == e.data.power_consumption.current) &&
	                 g_boo.data.voltage_known == e.data.voltage_known && (!e.data.voltage_known || g_boo.data.voltage == e.data.voltage) &&
	                 g_boo.data.temp_known == e.data.temp_known && (!e.data.temp_known || g_boo.data.temp_celsius == e.data.temp_celsius),
	                 "C07.boost_diagnostic.state_is_the_fold_of_the_key_value_pairs (a value byte is never read as a key)");
#elif defined(VP_H_VENDOR)
	uint8_t in_len; VP_IN(uint8_t, in_len); __CPROVER_assume(in_len >= 2 && in_len <= 12);   /* dispatcher guarantees >= 2 bytes; bounded: <= 12 */
	uint8_t *list = malloc(in_len); __CPROVER_assume(list != NULL);
	g_rm.id = &gid; g_rev.data.state_id = NULL;
	bidib_state_vendor(a, in_len, list, 0);
	VP_COVER(g_known && g_known2); VP_COVER(!g_known);
	__CPROVER_assert(1, "C12.vendor.reads_stay_inside_the_value_list (cbmc pointer checks)");
#endif
}
