/* C07 / C12: further state setters against their effect contracts; the lookup helpers are replaced by "NULL or an arbitrary element",
 * wire-supplied values are arbitrary, list arguments are heap objects of exactly the announced length (memory safety = C12).
 * Logging arguments ARE evaluated here (stubs/vp_syslog_eval.h). */
#include "vp_common.h"
#include "vp_syslog_eval.h"
#include <pthread.h>
#include <time.h>
#define pthread_mutex_lock(m) 0
#define pthread_mutex_unlock(m) 0
#define pthread_rwlock_rdlock(m) 0
#define pthread_rwlock_wrlock(m) 0
#define pthread_rwlock_unlock(m) 0
#define clock_gettime(id, ts) ((ts)->tv_sec = 0, (ts)->tv_nsec = 0, 0)
#include "src/state/bidib_state_setter.c"
#include "src/transmission/bidib_transmission_message_string_mapping.c"
#include "vp_glib.h"
gpointer vp_q_fresh(GQueue *q) { return NULL; }
void vp_q_pushed(GQueue *q, gpointer e) {}
void vp_q_popped(GQueue *q, gpointer e) {}
#define B01(x) ((x) = (x) ? 1 : 0)
_Bool g_known, g_known2; t_bidib_booster_state g_boo; t_bidib_track_output_state g_to; t_bidib_train_state_intern g_ts; t_bidib_peripheral_state g_per; t_bidib_peripheral_mapping g_pm;
t_bidib_reverser_mapping g_rm; t_bidib_reverser_state g_rev; t_bidib_dcc_accessory_mapping g_dm; t_bidib_dcc_accessory_state g_dacc;
static GString gid; static char gidc[2] = "i"; static char g_sid[2] = "s";
t_bidib_booster_state *bidib_state_get_booster_state_ref_by_nodeaddr(t_bidib_node_address a) { return g_known ? &g_boo : NULL; }
t_bidib_track_output_state *bidib_state_get_track_output_state_ref_by_nodeaddr(t_bidib_node_address a) { return g_known ? &g_to : NULL; }
t_bidib_train_state_intern *bidib_state_get_train_state_ref_by_dccaddr(t_bidib_dcc_address a) { return g_known ? &g_ts : NULL; }
t_bidib_peripheral_mapping *bidib_state_get_peripheral_mapping_ref_by_port(t_bidib_node_address a, t_bidib_peripheral_port p) { return g_known ? &g_pm : NULL; }
t_bidib_peripheral_state *bidib_state_get_peripheral_state_ref(const char *p) { return g_known2 ? &g_per : NULL; }
t_bidib_reverser_mapping *bidib_state_get_reverser_mapping_ref_by_cv(t_bidib_node_address a, const char *cv) { return g_known ? &g_rm : NULL; }
t_bidib_reverser_state *bidib_state_get_reverser_state_ref(const char *r) { return g_known2 ? &g_rev : NULL; }
t_bidib_dcc_accessory_mapping *bidib_state_get_dcc_accessory_mapping_ref_by_dccaddr(t_bidib_node_address a, t_bidib_dcc_address d, bool *point) { *point = 1; return g_known ? &g_dm : NULL; }
t_bidib_dcc_accessory_state *bidib_state_get_dcc_accessory_state_ref(const char *a, bool point) { return g_known2 ? &g_dacc : NULL; }
bool bidib_state_dcc_addr_in_use(t_bidib_dcc_address a) { _Bool r; return r; }
t_bidib_booster_power_state_simple bidib_booster_normal_to_simple(t_bidib_booster_power_state s) {
	return (s == 0x80 || s == 0x81 || s == 0x82 || s == 0x84) ? BIDIB_BSTR_SIMPLE_ON : (s == 0 || s == 3 || s == 4 || s == 5 || s == 6) ? BIDIB_BSTR_SIMPLE_OFF : BIDIB_BSTR_SIMPLE_ERROR;
}
/* libc model: strndup copies at most n bytes up to the first NUL and terminates the copy */
char *strndup(const char *src, size_t n) {
	char *d = malloc(n + 1); __CPROVER_assume(d != NULL);
	size_t k = 0;
	for (; k < n && k < 13; k++) { char c = src[k]; if (c == 0) break; d[k] = c; }
	d[k] = 0;
	return d;
}
t_bidib_train_peripheral_state g_bitstate[32]; _Bool g_bit_mapped[32];
t_bidib_train_peripheral_state *bidib_state_get_train_peripheral_state_by_bit(const t_bidib_train_state_intern *ts, uint8_t bit) { return (bit < 32 && g_bit_mapped[bit]) ? &g_bitstate[bit] : NULL; }
int bidib_dcc_speed_to_lib_format(uint8_t speed) { int st = speed & 0x7F; return st <= 1 ? 0 : ((speed & 0x80) ? st - 1 : -(st - 1)); }   /* proved in C09.speed */
t_bidib_board_accessory_mapping g_bam; t_bidib_board_accessory_state g_bacc; _Bool g_point;
t_bidib_board_accessory_mapping *bidib_state_get_board_accessory_mapping_ref_by_number(t_bidib_node_address a, uint8_t number, bool *point) { *point = g_point; return g_known ? &g_bam : NULL; }
t_bidib_board_accessory_state *bidib_state_get_board_accessory_state_ref(const char *id, bool point) { return g_known2 ? &g_bacc : NULL; }
char *vp_last_dup_src;
static unsigned spec_ma(unsigned c) { return c == 0 ? 0 : c < 16 ? c : c < 64 ? (c - 12) * 4 : c < 128 ? (c - 51) * 16 : c < 192 ? (c - 108) * 64 : (c - 171) * 256; }

void vp_harness(void) {
	VP_IN(_Bool, g_known); VP_IN(_Bool, g_known2);
	t_bidib_node_address a; gidc[0] = (char)0x69; gidc[1] = 0; gid.str = gidc; gid.len = 1;   /* --nondet-static havocs initialisers */
#if defined(VP_H_BOOST_STATE)
	uint8_t in_s; VP_IN(uint8_t, in_s);
	t_bidib_booster_state before = g_boo;
	bidib_state_boost_state(a, in_s);
	VP_COVER(g_known); VP_COVER(!g_known);
	if (g_known) __CPROVER_assert(g_boo.data.power_state == (t_bidib_booster_power_state)in_s && g_boo.data.power_state_simple == bidib_booster_normal_to_simple((t_bidib_booster_power_state)in_s), "C07.boost_state.power_state_and_its_simple_class_are_the_reported_ones");
	else __CPROVER_assert(g_boo.data.power_state == before.data.power_state && g_boo.data.power_state_simple == before.data.power_state_simple, "C07.boost_state.unknown_booster_changes_nothing");
	__CPROVER_assert(g_boo.data.voltage == before.data.voltage && g_boo.data.temp_celsius == before.data.temp_celsius && g_boo.data.power_consumption.current == before.data.power_consumption.current && g_boo.id == before.id, "C07.boost_state.changes_nothing_else");
#elif defined(VP_H_CS_STATE)
	uint8_t in_s; VP_IN(uint8_t, in_s);
	t_bidib_track_output_state before = g_to;
	bidib_state_cs_state(a, in_s, 0);
	VP_COVER(g_known && in_s == 0xFF); VP_COVER(!g_known);
	__CPROVER_assert(g_to.cs_state == (g_known ? (t_bidib_cs_state)in_s : before.cs_state) && g_to.id == before.id, "C07.cs_state.track_output_state_is_the_reported_one_unknown_node_changes_nothing");
#elif defined(VP_H_CS_DRIVE_ACK)
	uint8_t in_ack; VP_IN(uint8_t, in_ack); t_bidib_dcc_address d; g_ts.id = &gid;
	t_bidib_train_state_intern before = g_ts;
	bidib_state_cs_drive_ack(d, in_ack, 0);
	VP_COVER(g_known); VP_COVER(!g_known);
	__CPROVER_assert(g_ts.ack == (g_known ? (t_bidib_cs_ack)in_ack : before.ack), "C07.cs_drive_ack.train_ack_is_the_reported_one_unknown_address_changes_nothing");
	__CPROVER_assert(g_ts.set_speed_step == before.set_speed_step && g_ts.on_track == before.on_track && g_ts.orientation == before.orientation, "C07.cs_drive_ack.changes_nothing_else");
#elif defined(VP_H_CS_ACCESSORY_ACK)
	uint8_t in_ack; VP_IN(uint8_t, in_ack); t_bidib_dcc_address d; g_dm.id = &gid;
	t_bidib_dcc_accessory_state before = g_dacc;
	bidib_state_cs_accessory_ack(a, d, in_ack);
	VP_COVER(g_known && g_known2); VP_COVER(!g_known);
	__CPROVER_assert(g_dacc.data.ack == ((g_known && g_known2) ? (t_bidib_cs_ack)in_ack : before.data.ack), "C07.cs_accessory_ack.accessory_ack_is_the_reported_one_unknown_address_changes_nothing");
	__CPROVER_assert(g_dacc.data.state_value == before.data.state_value && g_dacc.data.state_id == before.data.state_id && g_dacc.data.switch_time == before.data.switch_time, "C07.cs_accessory_ack.changes_nothing_else");
#elif defined(VP_H_LC_WAIT)
	uint8_t in_t; VP_IN(uint8_t, in_t); t_bidib_peripheral_port p; g_pm.id = &gid;
	t_bidib_peripheral_state before = g_per;
	bidib_state_lc_wait(a, p, in_t);
	VP_COVER(g_known && g_known2 && (in_t & 0x80)); VP_COVER(!g_known);
	if (g_known && g_known2) __CPROVER_assert(g_per.data.wait == (in_t & 0x7F) && g_per.data.time_unit == ((in_t & 0x80) ? BIDIB_TIMEUNIT_SECONDS : BIDIB_TIMEUNIT_MILLISECONDS), "C07.lc_wait.wait_time_and_unit_from_the_reported_byte");
	else __CPROVER_assert(g_per.data.wait == before.data.wait && g_per.data.time_unit == before.data.time_unit, "C07.lc_wait.unknown_port_changes_nothing");
	__CPROVER_assert(g_per.data.state_value == before.data.state_value && g_per.data.state_id == before.data.state_id, "C07.lc_wait.changes_nothing_else");
#elif defined(VP_H_DIAGNOSTIC)
	uint8_t in_len; VP_IN(uint8_t, in_len); __CPROVER_assume(in_len <= 6);      /* bounded stand-in: at most 3 (key, value) pairs */
	uint8_t *list = malloc(in_len); __CPROVER_assume(list != NULL);
	B01(g_boo.data.voltage_known); B01(g_boo.data.temp_known); B01(g_boo.data.power_consumption.known); B01(g_boo.data.power_consumption.overcurrent);
	t_bidib_booster_state e = g_boo;          /* expected: fold of the (key, value) pairs */
	for (unsigned k = 0; k + 1 < in_len && k < 6; k += 2) {
		uint8_t key = list[k], v = list[k + 1];
		if (key == 0) { if (v <= 250) { e.data.power_consumption.known = 1; e.data.power_consumption.overcurrent = 0; e.data.power_consumption.current = spec_ma(v); }
		                else if (v == 254) { e.data.power_consumption.known = 1; e.data.power_consumption.overcurrent = 1; } else e.data.power_consumption.known = 0; }
		else if (key == 1) { if (v < 251) { e.data.voltage_known = 1; e.data.voltage = v; } else e.data.voltage_known = 0; }
		else if (key == 2) { e.data.temp_known = 1; e.data.temp_celsius = (int8_t)v; }
	}
	bidib_state_boost_diagnostic(a, in_len, list, 0);
	VP_COVER(g_known && in_len == 6); VP_COVER(!g_known);
	if (!g_known) e = e, e = g_boo;   /* unknown booster: nothing changes (checked against the unchanged copy below) */
	__CPROVER_assert(g_boo.data.power_consumption.known == e.data.power_consumption.known && g_boo.data.power_consumption.overcurrent == e.data.power_consumption.overcurrent &&
	                 (!e.data.power_consumption.known || e.data.power_consumption.overcurrent || g_boo.data.power_consumption.current == e.data.power_consumption.current) &&
	                 g_boo.data.voltage_known == e.data.voltage_known && (!e.data.voltage_known || g_boo.data.voltage == e.data.voltage) &&
	                 g_boo.data.temp_known == e.data.temp_known && (!e.data.temp_known || g_boo.data.temp_celsius == e.data.temp_celsius),
	                 "C07.boost_diagnostic.state_is_the_fold_of_the_key_value_pairs (a value byte is never read as a key)");
#elif defined(VP_H_CS_ACC_MANUAL) || defined(VP_H_CS_ACC)
	t_bidib_dcc_address d; g_dm.id = &gid; uint8_t in_data, in_time; VP_IN(uint8_t, in_data); VP_IN(uint8_t, in_time);
	_Bool has_sid; char *old_sid = NULL; if (has_sid) { old_sid = malloc(2); __CPROVER_assume(old_sid != NULL); } g_dacc.data.state_id = old_sid;
	B01(g_dacc.data.coil_on); B01(g_dacc.data.output_controls_timing);
	t_bidib_dcc_accessory_state before = g_dacc;
	_Bool hit = g_known && g_known2;
#ifdef VP_H_CS_ACC_MANUAL
	bidib_state_cs_accessory_manual(a, d, in_data);
	VP_COVER(hit); VP_COVER(!hit);
	if (hit) __CPROVER_assert(g_dacc.data.state_value == (in_data & 0x1F) && g_dacc.data.coil_on == ((in_data >> 5) & 1) && g_dacc.data.switch_time == 0, "C07.cs_accessory_manual.aspect_coil_and_time_from_the_data_byte");
	else __CPROVER_assert(g_dacc.data.state_value == before.data.state_value && g_dacc.data.coil_on == before.data.coil_on && g_dacc.data.switch_time == before.data.switch_time, "C07.cs_accessory_manual.unknown_address_changes_nothing");
	__CPROVER_assert(g_dacc.data.ack == before.data.ack && g_dacc.data.time_unit == before.data.time_unit && g_dacc.id == before.id, "C07.cs_accessory_manual.changes_nothing_else");
#else
	t_bidib_cs_accessory_mod prm; prm.dcc_address = d; prm.data = in_data; prm.time = in_time;
	bidib_state_cs_accessory(a, prm);
	VP_COVER(hit && has_sid); VP_COVER(!hit);
	if (hit) __CPROVER_assert(g_dacc.data.state_id == NULL && g_dacc.data.state_value == (in_data & 0x1F) && g_dacc.data.coil_on == ((in_data >> 5) & 1) && g_dacc.data.output_controls_timing == !((in_data >> 6) & 1) &&
	                          g_dacc.data.time_unit == ((in_time & 0x80) ? BIDIB_TIMEUNIT_SECONDS : BIDIB_TIMEUNIT_MILLISECONDS) && g_dacc.data.switch_time == (in_time & 0x7F),
	                          "C07.cs_accessory.optimistic_state_from_data_and_time_bytes_aspect_id_unknown_until_confirmed");
	else __CPROVER_assert(g_dacc.data.state_id == before.data.state_id && g_dacc.data.state_value == before.data.state_value && g_dacc.data.coil_on == before.data.coil_on, "C07.cs_accessory.unknown_address_changes_nothing");
	__CPROVER_assert(g_dacc.data.ack == before.data.ack && g_dacc.id == before.id, "C07.cs_accessory.changes_nothing_else");
#endif
#elif defined(VP_H_BM_SPEED)
	t_bidib_dcc_address d; uint8_t lo, hi; g_ts.id = &gid; t_bidib_train_state_intern before = g_ts;
	bidib_state_bm_speed(d, lo, hi);
	VP_COVER(g_known); VP_COVER(!g_known);
	__CPROVER_assert(g_ts.detected_kmh_speed == (g_known ? ((hi << 8) | lo) : before.detected_kmh_speed), "C07.bm_speed.measured_speed_is_the_reported_16_bit_value_unknown_address_changes_nothing");
	__CPROVER_assert(g_ts.set_speed_step == before.set_speed_step && g_ts.ack == before.ack && g_ts.on_track == before.on_track, "C07.bm_speed.changes_nothing_else");
#elif defined(VP_H_BM_DYN_STATE)
	t_bidib_dcc_address d; uint8_t num, val; g_ts.id = &gid;
	B01(g_ts.decoder_state.signal_quality_known); B01(g_ts.decoder_state.temp_known); B01(g_ts.decoder_state.energy_storage_known); B01(g_ts.decoder_state.container2_storage_known); B01(g_ts.decoder_state.container3_storage_known);
	t_bidib_train_state_intern before = g_ts;
	bidib_state_bm_dyn_state(d, num, val, 0);
	VP_COVER(g_known && num == 5); VP_COVER(!g_known);
	t_bidib_train_decoder_state e = before.decoder_state;
	if (g_known) { if (num == 1) { e.signal_quality_known = 1; e.signal_quality = val; } else if (num == 2) { e.temp_known = 1; e.temp_celsius = (int8_t)val; } else if (num == 3) { e.energy_storage_known = 1; e.energy_storage = val; }
	               else if (num == 4) { e.container2_storage_known = 1; e.container2_storage = val; } else if (num == 5) { e.container3_storage_known = 1; e.container3_storage = val; } }
	t_bidib_train_decoder_state g = g_ts.decoder_state;
	__CPROVER_assert(g.signal_quality_known == e.signal_quality_known && g.signal_quality == e.signal_quality && g.temp_known == e.temp_known && g.temp_celsius == e.temp_celsius &&
	                 g.energy_storage_known == e.energy_storage_known && g.energy_storage == e.energy_storage && g.container2_storage_known == e.container2_storage_known && g.container2_storage == e.container2_storage &&
	                 g.container3_storage_known == e.container3_storage_known && g.container3_storage == e.container3_storage, "C07.bm_dyn_state.exactly_the_reported_decoder_value_changes_unknown_kinds_and_addresses_change_nothing");
	__CPROVER_assert(g_ts.detected_kmh_speed == before.detected_kmh_speed && g_ts.ack == before.ack, "C07.bm_dyn_state.changes_nothing_else");
#elif defined(VP_H_CS_DRIVE)
	t_bidib_cs_drive_mod prm; g_ts.id = &gid; B01(g_ts.set_is_forwards);
	static t_bidib_train_peripheral_state per[2]; static vp_garray vper; vper.data = (gchar *)per; vper.len = 2; vper.elt_size = sizeof per[0]; g_ts.peripherals = (GArray *)&vper;
	for (int k = 0; k < 32; k++) B01(g_bit_mapped[k]);
	t_bidib_train_state_intern before = g_ts; t_bidib_train_peripheral_state bbefore[32]; for (int k = 0; k < 32; k++) bbefore[k] = g_bitstate[k];
	bidib_state_cs_drive(prm);
	VP_COVER(g_known && prm.active == 0x3F); VP_COVER(g_known && prm.active == 0); VP_COVER(!g_known);
	if (!g_known) {
		__CPROVER_assert(g_ts.set_speed_step == before.set_speed_step && g_ts.set_is_forwards == before.set_is_forwards && g_ts.ack == before.ack, "C07.cs_drive.unknown_address_changes_nothing");
		for (int k = 0; k < 32; k++) __CPROVER_assert(g_bitstate[k].state == bbefore[k].state, "C07.cs_drive.unknown_address_changes_no_function");
	} else if (prm.active == 0) {
		__CPROVER_assert(g_ts.set_speed_step == 0 && g_ts.set_is_forwards && per[0].state == 0 && per[1].state == 0, "C07.cs_drive.inactive_drive_request_means_speed_0_forwards_all_functions_off");
	} else {
		uint8_t fb[4] = {prm.function1, prm.function2, prm.function3, prm.function4};
		if (prm.active & 1) __CPROVER_assert(g_ts.set_speed_step == bidib_dcc_speed_to_lib_format(prm.speed) && g_ts.set_is_forwards == (prm.speed >= 0x80), "C07.cs_drive.speed_and_direction_when_the_speed_group_is_active");
		else __CPROVER_assert(g_ts.set_speed_step == before.set_speed_step && g_ts.set_is_forwards == before.set_is_forwards, "C07.cs_drive.speed_untouched_when_the_speed_group_is_inactive");
		__CPROVER_assert(g_ts.ack == BIDIB_DCC_ACK_PENDING, "C07.cs_drive.acknowledgement_pending_after_a_drive_command");
		for (unsigned k = 0; k < 32; k++) {
			int grp = k < 5 ? 1 : (k >= 8 && k < 12) ? 2 : (k >= 12 && k < 16) ? 3 : (k >= 16 && k < 24) ? 4 : k >= 24 ? 5 : 0;
			_Bool upd = grp != 0 && ((prm.active >> grp) & 1) && g_bit_mapped[k];
			__CPROVER_assert(g_bitstate[k].state == (upd ? ((fb[k / 8] >> (k % 8)) & 1) : bbefore[k].state), "C07.cs_drive.function_bits_of_active_groups_updated_all_others_untouched");
		}
	}
#elif defined(VP_H_ACCESSORY_STATE) || defined(VP_H_LC_STAT)
	static t_bidib_aspect asp[2]; static GString aid[2]; static char aidc[2][2]; static vp_garray vasp; guint na; __CPROVER_assume(na <= 2);
	for (int k = 0; k < 2; k++) { aidc[k][0] = (char)(0x61 + k); aidc[k][1] = 0; aid[k].str = aidc[k]; aid[k].len = 1; asp[k].id = &aid[k]; }
	__CPROVER_assume(asp[0].value != asp[1].value);
	vasp.data = (gchar *)asp; vasp.len = na; vasp.elt_size = sizeof asp[0];
	_Bool hit = g_known && g_known2; uint8_t in_aspect; VP_IN(uint8_t, in_aspect);
	int match = (na > 0 && asp[0].value == in_aspect) ? 0 : (na > 1 && asp[1].value == in_aspect) ? 1 : -1;
#ifdef VP_H_ACCESSORY_STATE
	__CPROVER_assume(na >= 1);   /* invariant of parsed board accessories: bidib_config_parser_track.c rejects an empty aspects list */
	g_bam.id = &gid; g_bam.aspects = (GArray *)&vasp; g_bacc.data.state_id = NULL; VP_IN(_Bool, g_point);
	uint8_t num, total, exec, wait; t_bidib_board_accessory_state before = g_bacc;
	bidib_state_accessory_state(a, num, in_aspect, total, exec, wait, 0);
	VP_COVER(hit && match == 1); VP_COVER(hit && match < 0); VP_COVER(!hit);
	if (hit) {
		__CPROVER_assert(g_bacc.data.state_value == in_aspect && g_bacc.data.execution_state == (t_bidib_accessory_execution_state)exec && g_bacc.data.wait_details == wait, "C07.accessory_state.aspect_value_execution_and_wait_are_the_reported_ones");
		__CPROVER_assert(match < 0 ? g_bacc.data.state_id == NULL : (g_bacc.data.state_id != NULL && g_bacc.data.state_id[0] == aidc[match][0]), "C07.accessory_state.aspect_id_is_the_configured_id_of_the_reported_value_or_unknown");
	} else __CPROVER_assert(g_bacc.data.state_value == before.data.state_value && g_bacc.data.state_id == before.data.state_id && g_bacc.data.execution_state == before.data.execution_state, "C07.accessory_state.unknown_accessory_changes_nothing");
#else
	g_pm.id = &gid; g_pm.aspects = (GArray *)&vasp; g_per.data.state_id = NULL; t_bidib_peripheral_port prt; t_bidib_peripheral_state before = g_per;
	bidib_state_lc_stat(a, prt, in_aspect, 0);
	VP_COVER(hit && match == 1); VP_COVER(hit && match < 0); VP_COVER(!hit);
	if (hit) {
		__CPROVER_assert(g_per.data.state_value == in_aspect, "C07.lc_stat.port_state_value_is_the_reported_one");
		__CPROVER_assert(match < 0 ? g_per.data.state_id == NULL : (g_per.data.state_id != NULL && g_per.data.state_id[0] == aidc[match][0]), "C07.lc_stat.aspect_id_is_the_configured_id_of_the_reported_value_or_unknown");
	} else __CPROVER_assert(g_per.data.state_value == before.data.state_value && g_per.data.state_id == before.data.state_id, "C07.lc_stat.unknown_port_changes_nothing");
	__CPROVER_assert(g_per.data.wait == before.data.wait && g_per.data.time_unit == before.data.time_unit, "C07.lc_stat.changes_nothing_else");
#endif
#elif defined(VP_H_VENDOR)
	uint8_t in_len; VP_IN(uint8_t, in_len); __CPROVER_assume(in_len >= 2 && in_len <= 12);   /* dispatcher guarantees >= 2 bytes; bounded: <= 12 */
	uint8_t *list = malloc(in_len); __CPROVER_assume(list != NULL);
	g_rm.id = &gid; g_rev.data.state_id = NULL;
	bidib_state_vendor(a, in_len, list, 0);
	VP_COVER(g_known && g_known2); VP_COVER(!g_known);
	__CPROVER_assert(1, "C12.vendor.reads_stay_inside_the_value_list (cbmc pointer checks)");
#endif
}
