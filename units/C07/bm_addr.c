/* C07/C08: the occupancy-detector setters that rebuild address lists or touch several segments:
 *   bidib_state_bm_address    - the segment's address list is exactly the reported decoder list (accessory entries skipped,
 *                               a single 0x0000 = free), orientation bits included; availability recomputed once, afterwards
 *   bidib_state_bm_multiple   - every segment in [number, number+size) gets the reported bit; cleared segments list nothing
 *   bidib_state_bm_confidence - every segment of the board gets the three flags
 * Bounded stand-ins (concrete GArray model): bounds in units.py. */
#include "vp_common.h"
#include "vp_syslog_eval.h"
#include <pthread.h>
#define pthread_mutex_lock(m) 0
#define pthread_mutex_unlock(m) 0
#define pthread_rwlock_rdlock(m) 0
#define pthread_rwlock_wrlock(m) 0
#define pthread_rwlock_unlock(m) 0
#include "src/state/bidib_state_setter.c"
#include "vp_glib.h"
gpointer vp_q_fresh(GQueue *q) { return NULL; }
void vp_q_pushed(GQueue *q, gpointer e) {}
void vp_q_popped(GQueue *q, gpointer e) {}

_Bool g_known; unsigned g_updates; int g_copies;
t_bidib_segment_state_intern g_seg, g_other; static GString gid; static char gidc[2] = "s";
_Bool g_train_known; t_bidib_train_state_intern g_ts;
t_bidib_train_state_intern *bidib_state_get_train_state_ref_by_dccaddr(t_bidib_dcc_address a) { g_ts.id = &gid; return g_train_known ? &g_ts : NULL; }
static GArray *vp_addr_array(guint n) {
	GArray *arr = g_array_sized_new(FALSE, FALSE, sizeof(t_bidib_dcc_address), 4);
	for (guint k = 0; k < 2; k++) if (k < n) { t_bidib_dcc_address a; g_array_append_vals(arr, &a, 1); }
	return arr;
}

#if defined(VP_H_BM_ADDRESS)
uint8_t g_cnt; uint8_t *g_addrs; _Bool g_final_at_update;
static unsigned spec_len(void) {
	if (g_cnt == 1 && g_addrs[0] == 0 && g_addrs[1] == 0) return 0;
	unsigned n = 0; for (unsigned k = 0; k < 3; k++) if (k < g_cnt && (g_addrs[2 * k + 1] & 0x40) == 0) n++;
	return n;
}
static _Bool spec_holds(void) {
	if (g_seg.dcc_addresses->len != spec_len()) return 0;
	unsigned n = 0;
	for (unsigned k = 0; k < 3; k++) if (k < g_cnt && (g_addrs[2 * k + 1] & 0x40) == 0 && n < spec_len()) {
		t_bidib_dcc_address *d = &g_array_index(g_seg.dcc_addresses, t_bidib_dcc_address, n);
		if (d->addrl != g_addrs[2 * k] || d->addrh != (g_addrs[2 * k + 1] & 0x3F) || d->type != ((g_addrs[2 * k + 1] >> 6) & 3)) return 0;
		n++;
	}
	return 1;
}
t_bidib_segment_state_intern *bidib_state_get_segment_state_ref_by_nodeaddr(t_bidib_node_address a, uint8_t number) { return g_known ? &g_seg : NULL; }
t_bidib_segment_state_intern bidib_state_get_segment_state(const t_bidib_segment_state_intern *const s) {
	t_bidib_segment_state_intern q = *s; g_copies++;
	q.dcc_addresses = g_array_sized_new(FALSE, FALSE, sizeof(t_bidib_dcc_address), 4);
	if (s->dcc_addresses->len > 0) g_array_append_vals(q.dcc_addresses, s->dcc_addresses->data, s->dcc_addresses->len);
	return q;
}
void bidib_state_free_single_segment_state_intern(t_bidib_segment_state_intern q) { g_copies--; g_array_free(q.dcc_addresses, TRUE); }
void bidib_state_update_train_available(void) { g_updates++; g_final_at_update = spec_holds(); }
void vp_harness(void) {
	VP_IN(_Bool, g_known); guint in_old; VP_IN(guint, in_old); __CPROVER_assume(in_old <= 2);
	VP_IN(uint8_t, g_cnt); __CPROVER_assume(g_cnt <= 3);
	g_addrs = malloc(2 * (size_t)g_cnt);           /* exactly the bytes the message carries: any read beyond them is reported */
	g_seg.dcc_addresses = vp_addr_array(in_old); g_seg.id = &gid; gid.str = gidc; gid.len = 1;
	g_seg.occupied = g_seg.occupied ? 1 : 0; _Bool before_occ = g_seg.occupied;
	t_bidib_node_address addr; uint8_t num; g_updates = 0; g_copies = 0;
	bidib_state_bm_address(addr, num, g_cnt, g_addrs);
	VP_COVER(g_known && g_cnt == 3 && spec_len() == 2 && in_old == 2); VP_COVER(g_known && g_cnt == 1 && spec_len() == 0); VP_COVER(!g_known);
	if (g_known) {
		__CPROVER_assert(spec_holds(), "C07.bm_address.address_list_is_exactly_the_reported_decoders_with_their_orientation");
		__CPROVER_assert(g_updates == 1 && g_final_at_update, "C08.bm_address.train_availability_recomputed_once_after_the_list_is_final");
		__CPROVER_assert(g_seg.occupied == before_occ, "C07.bm_address.occupancy_flag_untouched");
		__CPROVER_assert(g_copies == 0, "C07.bm_address.temporary_copy_released");
	} else __CPROVER_assert(g_seg.dcc_addresses->len == in_old && g_updates == 0 && g_copies == 0, "C07.bm_address.unknown_segment_changes_nothing");
}

#elif defined(VP_H_BM_MULTIPLE)
uint8_t g_w; _Bool g_other_known;
t_bidib_segment_state_intern *bidib_state_get_segment_state_ref_by_nodeaddr(t_bidib_node_address a, uint8_t number) {
	if (number == g_w) return g_known ? &g_seg : NULL;
	return g_other_known ? &g_other : NULL;          /* every other number: absent, or a sink segment */
}
_Bool g_final_at_update; uint8_t g_num, g_size; uint8_t *g_data;
static _Bool in_range(void) { return g_w >= g_num && (unsigned)g_w - g_num < g_size && g_w < 255; }
static _Bool rep_bit(void) { unsigned i = (unsigned)g_w - g_num; return (g_data[i / 8] >> (i % 8)) & 1; }
void bidib_state_update_train_available(void) { g_updates++; g_final_at_update = !in_range() || !g_known || (g_seg.occupied == rep_bit() && (rep_bit() || g_seg.dcc_addresses->len == 0)); }
void vp_harness(void) {
	VP_IN(_Bool, g_known); VP_IN(_Bool, g_other_known); VP_IN(uint8_t, g_w); VP_IN(uint8_t, g_num); VP_IN(uint8_t, g_size);
	__CPROVER_assume(g_size <= VP_MAXBITS);
	guint in_old; VP_IN(guint, in_old); __CPROVER_assume(in_old <= 2);
	g_data = malloc(((size_t)g_size + 7) / 8);      /* exactly the bytes the length check of the dispatcher guarantees */
	g_seg.dcc_addresses = vp_addr_array(in_old); g_other.dcc_addresses = vp_addr_array(1);
	g_seg.id = &gid; g_other.id = &gid; gid.str = gidc; gid.len = 1;
	g_seg.occupied = g_seg.occupied ? 1 : 0; _Bool before_occ = g_seg.occupied;
	t_bidib_node_address addr; g_updates = 0;
	bidib_state_bm_multiple(addr, g_num, g_size, g_data);
	VP_COVER(g_known && in_range() && !rep_bit() && in_old == 2 && g_size == VP_MAXBITS); VP_COVER(g_known && in_range() && rep_bit()); VP_COVER(g_known && !in_range());
	if (g_known && in_range()) {
		__CPROVER_assert(g_seg.occupied == rep_bit(), "C07.bm_multiple.each_segment_in_range_gets_its_reported_bit");
		__CPROVER_assert(rep_bit() ? g_seg.dcc_addresses->len == in_old : g_seg.dcc_addresses->len == 0, "C08.bm_multiple.segment_reported_free_lists_no_addresses");
	} else __CPROVER_assert(g_seg.occupied == before_occ && g_seg.dcc_addresses->len == in_old, "C07.bm_multiple.segments_outside_the_reported_range_untouched");
	__CPROVER_assert(g_updates == 1 && g_final_at_update, "C08.bm_multiple.train_availability_recomputed_once_after_all_segments_are_final");
}

#elif defined(VP_H_BM_CONFIDENCE)
t_bidib_board g_board; static t_bidib_segment_mapping g_map[2]; static GString g_mid[2]; static char g_midc[2][2]; static vp_garray g_vsegs;
t_bidib_segment_state_intern g_segs[2], g_unrel;
const t_bidib_board *bidib_state_get_board_ref_by_nodeaddr(t_bidib_node_address a) { return g_known ? &g_board : NULL; }
/* invariant of the parsed configuration: every segment mapping of a board has a segment state of the same id */
t_bidib_segment_state_intern *bidib_state_get_segment_state_ref(const char *id) { return id == g_midc[0] ? &g_segs[0] : id == g_midc[1] ? &g_segs[1] : &g_unrel; }
void vp_harness(void) {
	VP_IN(_Bool, g_known); guint n; VP_IN(guint, n); __CPROVER_assume(n <= 2);
	for (int k = 0; k < 2; k++) { g_midc[k][0] = (char)(0x61 + k); g_midc[k][1] = 0; g_mid[k].str = g_midc[k]; g_mid[k].len = 1; g_map[k].id = &g_mid[k]; }
	g_vsegs.data = (gchar *)g_map; g_vsegs.len = n; g_vsegs.elt_size = sizeof g_map[0]; g_board.segments = (GArray *)&g_vsegs; g_board.id = &gid; gid.str = gidc; gid.len = 1;
	uint8_t cv, fr, ns; VP_IN(uint8_t, cv); VP_IN(uint8_t, fr); VP_IN(uint8_t, ns); t_bidib_node_address addr;
	t_bidib_segment_state_intern b0 = g_segs[0], b1 = g_segs[1], bu = g_unrel;
	bidib_state_bm_confidence(addr, cv, fr, ns, 0);
	VP_COVER(g_known && n == 2 && cv == 2 && fr == 0); VP_COVER(!g_known); VP_COVER(g_known && n == 1);
	for (unsigned k = 0; k < 2; k++) {
		t_bidib_segment_state_intern *s = &g_segs[k], *b = k ? &b1 : &b0;
		if (g_known && k < n)
			__CPROVER_assert(s->confidence.conf_void == (cv != 0) && s->confidence.freeze == (fr != 0) && s->confidence.nosignal == (ns != 0), "C07.bm_confidence.every_segment_of_the_board_gets_the_reported_flags");
		else
			__CPROVER_assert(s->confidence.conf_void == b->confidence.conf_void && s->confidence.freeze == b->confidence.freeze && s->confidence.nosignal == b->confidence.nosignal, "C07.bm_confidence.segments_of_other_boards_untouched");
		__CPROVER_assert(s->occupied == b->occupied && s->dcc_addresses == b->dcc_addresses, "C07.bm_confidence.changes_nothing_but_the_confidence_flags");
	}
	__CPROVER_assert(g_unrel.confidence.conf_void == bu.confidence.conf_void && g_unrel.confidence.freeze == bu.confidence.freeze, "C07.bm_confidence.unrelated_segment_untouched");
}
#endif
