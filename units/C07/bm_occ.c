/* C08/C07: bidib_state_bm_occ - a segment reported free lists no addresses afterwards, the derived train availability is
 * recomputed once AFTER the segment data is final (never lags), unknown node/number changes nothing.
 * Bounded stand-in: the segment lists at most 3 addresses (concrete GArray model). */
#include "vp_common.h"
#include "vp_syslog.h"
#include <pthread.h>
#define pthread_mutex_lock(m) 0
#define pthread_mutex_unlock(m) 0
#define pthread_rwlock_rdlock(m) 0
#define pthread_rwlock_wrlock(m) 0
#define pthread_rwlock_unlock(m) 0
#include "src/state/bidib_state_setter.c"
#include "vp_glib.h"
gpointer vp_q_fresh(GQueue *q) { return NULL; }
void vp_q_pushed(GQueue *q, gpointer e) {}
void vp_q_popped(GQueue *q, gpointer e) {}
_Bool g_known; t_bidib_segment_state_intern g_seg; unsigned g_updates; _Bool g_occ_arg; _Bool g_final_at_update;
t_bidib_segment_state_intern *bidib_state_get_segment_state_ref_by_nodeaddr(t_bidib_node_address node_address, uint8_t number) { return g_known ? &g_seg : NULL; }
void bidib_state_update_train_available(void) {
	g_updates++;
	g_final_at_update = (g_seg.occupied == g_occ_arg) && (g_occ_arg || g_seg.dcc_addresses->len == 0);
}
void vp_harness(void) {
	VP_IN(_Bool, g_known);
	_Bool in_occ; VP_IN(_Bool, in_occ); in_occ = in_occ ? 1 : 0; g_occ_arg = in_occ;
	guint in_n; VP_IN(guint, in_n); __CPROVER_assume(in_n <= 3);
	GArray *arr = g_array_sized_new(FALSE, FALSE, sizeof(t_bidib_dcc_address), 4);
	for (guint k = 0; k < 3; k++) if (k < in_n) { t_bidib_dcc_address a; g_array_append_vals(arr, &a, 1); }
	g_seg.dcc_addresses = arr; g_seg.occupied = g_seg.occupied ? 1 : 0;
	_Bool before_occ = g_seg.occupied;
	uint8_t num; t_bidib_node_address addr;
	g_updates = 0;
	bidib_state_bm_occ(addr, num, in_occ);
	VP_COVER(g_known && !in_occ && in_n == 3);
	VP_COVER(!g_known);
	if (g_known) {
		__CPROVER_assert(g_seg.occupied == in_occ, "C07.bm_occ.occupancy_is_the_reported_one");
		__CPROVER_assert(in_occ ? g_seg.dcc_addresses->len == in_n : g_seg.dcc_addresses->len == 0, "C08.bm_occ.segment_reported_free_lists_no_addresses");
		__CPROVER_assert(g_updates == 1 && g_final_at_update, "C08.bm_occ.train_availability_recomputed_after_the_segment_data_is_final");
	} else {
		__CPROVER_assert(g_seg.occupied == before_occ && g_seg.dcc_addresses->len == in_n && g_updates == 0, "C07.bm_occ.unknown_segment_changes_nothing");
	}
}
