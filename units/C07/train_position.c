/* C08: bidib_get_train_position_intern - the reported position is exactly the set of segments that currently list the
 * train's DCC address (whatever their occupancy flag says), the orientation is one reported together with that address.
 * Bounded stand-in: 2 segments with 0..2 listed addresses each (arbitrary content, distinct within a segment). */
#include "vp_common.h"
#include "vp_syslog.h"
#include <pthread.h>
#define pthread_mutex_lock(m) 0
#define pthread_mutex_unlock(m) 0
#define pthread_rwlock_rdlock(m) 0
#define pthread_rwlock_wrlock(m) 0
#define pthread_rwlock_unlock(m) 0
#include <string.h>
static char *vp_strdup2(const char *s) { char *d = malloc(2); __CPROVER_assume(d != NULL); d[0] = s[0]; d[1] = s[1]; return d; }   /* ids are 1 character + NUL in this unit */
#define strdup(s) vp_strdup2(s)
#include "src/highlevel/bidib_highlevel_getter.c"
#undef strdup
#include "vp_glib.h"
gpointer vp_q_fresh(GQueue *q) { return NULL; }
void vp_q_pushed(GQueue *q, gpointer e) {}
void vp_q_popped(GQueue *q, gpointer e) {}
#define NS 2
_Bool g_train_known, g_state_known; t_bidib_train g_train; t_bidib_train_state_intern g_ts;
t_bidib_train *bidib_state_get_train_ref(const char *train) { return g_train_known ? &g_train : NULL; }
t_bidib_train_state_intern *bidib_state_get_train_state_ref(const char *train) { return g_state_known ? &g_ts : NULL; }
static t_bidib_segment_state_intern segs[NS]; static vp_garray v_segs; static t_bidib_dcc_address ad[NS][2]; static vp_garray v_ad[NS];
static GString sid[NS]; static char sidc[NS][2];
static _Bool lists(int s, int j) { return j < (int)v_ad[s].len && ad[s][j].addrl == g_train.dcc_addr.addrl && ad[s][j].addrh == g_train.dcc_addr.addrh; }
void vp_harness(void) {
	VP_IN(_Bool, g_train_known); VP_IN(_Bool, g_state_known);
	for (int s = 0; s < NS; s++) {
		sidc[s][0] = (char)(0x61 + s); sidc[s][1] = 0; sid[s].str = sidc[s]; sid[s].len = 1; segs[s].id = &sid[s];
		guint n; __CPROVER_assume(n <= 2); v_ad[s].data = (gchar *)ad[s]; v_ad[s].len = n; v_ad[s].elt_size = sizeof ad[0][0]; segs[s].dcc_addresses = (GArray *)&v_ad[s];
		__CPROVER_assume(!(ad[s][0].addrl == ad[s][1].addrl && ad[s][0].addrh == ad[s][1].addrh));   /* a detector lists a decoder once */
		segs[s].occupied = segs[s].occupied ? 1 : 0;
	}
	v_segs.data = (gchar *)segs; v_segs.len = NS; v_segs.elt_size = sizeof segs[0]; bidib_track_state.segments = (GArray *)&v_segs;
	_Bool null_id;
	t_bidib_train_position_query q = bidib_get_train_position_intern(null_id ? NULL : "t");
	_Bool valid = !null_id && g_train_known && g_state_known;
	unsigned cnt = 0; _Bool in[NS]; _Bool left_seen = 0, right_seen = 0;
	for (int s = 0; s < NS; s++) { in[s] = valid && (lists(s, 0) || lists(s, 1)); if (in[s]) cnt++; for (int j = 0; j < 2; j++) if (valid && lists(s, j)) { if (ad[s][j].type == 0) left_seen = 1; else right_seen = 1; } }
	VP_COVER(cnt == NS); VP_COVER(cnt == 1 && !segs[0].occupied && in[0]); VP_COVER(valid && cnt == 0); VP_COVER(!valid);
	__CPROVER_assert(q.length == cnt, "C08.position.length_is_the_number_of_segments_listing_the_address");
	if (cnt == 0) __CPROVER_assert(q.segments == NULL, "C08.position.no_segment_list_when_not_on_track");
	else {
		unsigned w; __CPROVER_assume(w < NS);      /* watched segment */
		_Bool found = 0; unsigned times = 0;
		for (unsigned k = 0; k < NS; k++) if (k < q.length) { __CPROVER_assert(q.segments[k] != NULL && q.segments[k][1] == 0, "C08.position.every_entry_is_a_segment_id"); if (q.segments[k][0] == sidc[w][0]) { found = 1; times++; } }
		__CPROVER_assert(found == in[w] && times <= 1, "C08.position.lists_exactly_the_segments_that_list_the_address_each_once");
		__CPROVER_assert(q.orientation_is_left ? left_seen : right_seen, "C08.position.orientation_is_one_reported_with_the_address");
	}
}
