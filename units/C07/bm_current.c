/* C07: bidib_state_bm_current - all 256 current codes against the BiDiB occupancy table
 *   0: 0 mA | 1..15: 1 mA/step | 16..63: (c-12)*4 | 64..127: (c-51)*16 | 128..191: (c-108)*64 | 192..250: (c-171)*256 |
 *   251..253: reserved (unknown) | 254: overcurrent | 255: unknown
 * lookup replaced by "NULL or a segment with arbitrary content"; frame: nothing but power_consumption changes, and nothing at
 * all for an unknown node/number. */
#include "vp_common.h"
#include "vp_syslog.h"
#include <pthread.h>
#define pthread_mutex_lock(m) 0
#define pthread_mutex_unlock(m) 0
#define pthread_rwlock_rdlock(m) 0
#define pthread_rwlock_wrlock(m) 0
#define pthread_rwlock_unlock(m) 0
#include "src/state/bidib_state_setter.c"
_Bool g_known; t_bidib_segment_state_intern g_seg; unsigned g_lookups; uint8_t g_lnum; t_bidib_node_address g_laddr;
t_bidib_segment_state_intern *bidib_state_get_segment_state_ref_by_nodeaddr(t_bidib_node_address node_address, uint8_t number) {
	g_lookups++; g_lnum = number; g_laddr = node_address; return g_known ? &g_seg : NULL;
}
void vp_harness(void) {
	VP_IN(_Bool, g_known);
	uint8_t in_num, in_cur; VP_IN(uint8_t, in_num); VP_IN(uint8_t, in_cur);
	t_bidib_node_address a;
	g_seg.power_consumption.known = g_seg.power_consumption.known ? 1 : 0; g_seg.power_consumption.overcurrent = g_seg.power_consumption.overcurrent ? 1 : 0;
	t_bidib_segment_state_intern before = g_seg;
	g_lookups = 0;
	bidib_state_bm_current(a, in_num, in_cur);
	VP_COVER(g_known && in_cur == 254);
	VP_COVER(!g_known);
	__CPROVER_assert(g_lookups == 1 && g_lnum == in_num && g_laddr.top == a.top && g_laddr.sub == a.sub && g_laddr.subsub == a.subsub, "C07.bm_current.segment_looked_up_by_sender_and_number");
	/* frame */
	__CPROVER_assert(g_seg.id == before.id && g_seg.occupied == before.occupied && g_seg.confidence.conf_void == before.confidence.conf_void && g_seg.confidence.freeze == before.confidence.freeze &&
	                 g_seg.confidence.nosignal == before.confidence.nosignal && g_seg.dcc_addresses == before.dcc_addresses, "C07.bm_current.changes_nothing_but_the_power_consumption");
	if (!g_known) {
		__CPROVER_assert(g_seg.power_consumption.known == before.power_consumption.known && g_seg.power_consumption.overcurrent == before.power_consumption.overcurrent &&
		                 g_seg.power_consumption.current == before.power_consumption.current, "C07.bm_current.unknown_segment_changes_nothing");
	} else {
		unsigned c = in_cur;
		if (c <= 250) {
			unsigned ma = c == 0 ? 0 : c < 16 ? c : c < 64 ? (c - 12) * 4 : c < 128 ? (c - 51) * 16 : c < 192 ? (c - 108) * 64 : (c - 171) * 256;
			__CPROVER_assert(g_seg.power_consumption.known && !g_seg.power_consumption.overcurrent && g_seg.power_consumption.current == ma, "C07.bm_current.code_to_milliampere_table");
		} else if (c == 254) {
			__CPROVER_assert(g_seg.power_consumption.known && g_seg.power_consumption.overcurrent, "C07.bm_current.code_254_is_overcurrent");
		} else {
			__CPROVER_assert(!g_seg.power_consumption.known, "C07.bm_current.reserved_and_255_mean_unknown");
		}
	}
}
