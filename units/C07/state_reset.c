/* C07 ("... since the last reset"): bidib_state_reset puts EVERY tracked entity of every kind back into its initial state,
 * whatever it held before (2 entities per kind, arbitrary previous content; segments list 0..2 addresses, trains have 0..2 functions).
 * Initial values as the parsers create the records.  Not asserted (left as they are by the code, initial value differs): coil_on /
 * output_controls_timing / ack of DCC points. */
#include "vp_common.h"
#include "vp_syslog.h"
#include <pthread.h>
#define pthread_mutex_lock(m) 0
#define pthread_mutex_unlock(m) 0
#define pthread_rwlock_rdlock(m) 0
#define pthread_rwlock_wrlock(m) 0
#define pthread_rwlock_unlock(m) 0
#include "src/state/bidib_state.c"
#include "vp_glib.h"
gpointer vp_q_fresh(GQueue *q) { return NULL; }
void vp_q_pushed(GQueue *q, gpointer e) {}
void vp_q_popped(GQueue *q, gpointer e) {}
#define N 2
static t_bidib_board_accessory_state pb[N], sb[N]; static t_bidib_dcc_accessory_state pd[N], sd[N]; static t_bidib_peripheral_state pe[N];
static t_bidib_segment_state_intern sg[N]; static t_bidib_reverser_state rv[N]; static t_bidib_train_state_intern tr[N]; static t_bidib_booster_state bo[N]; static t_bidib_track_output_state to[N];
static vp_garray v_pb, v_sb, v_pd, v_sd, v_pe, v_sg, v_rv, v_tr, v_bo, v_to, v_ad[N], v_fn[N]; static t_bidib_dcc_address ad[N][2]; static t_bidib_train_peripheral_state fn[N][2];
static void mk(vp_garray *v, void *d, guint n, guint e) { v->data = (gchar *)d; v->len = n; v->elt_size = e; v->cap = n; }
void vp_harness(void) {
	mk(&v_pb, pb, N, sizeof pb[0]); mk(&v_sb, sb, N, sizeof sb[0]); mk(&v_pd, pd, N, sizeof pd[0]); mk(&v_sd, sd, N, sizeof sd[0]); mk(&v_pe, pe, N, sizeof pe[0]);
	mk(&v_sg, sg, N, sizeof sg[0]); mk(&v_rv, rv, N, sizeof rv[0]); mk(&v_tr, tr, N, sizeof tr[0]); mk(&v_bo, bo, N, sizeof bo[0]); mk(&v_to, to, N, sizeof to[0]);
	bidib_track_state.points_board = (GArray *)&v_pb; bidib_track_state.signals_board = (GArray *)&v_sb; bidib_track_state.points_dcc = (GArray *)&v_pd; bidib_track_state.signals_dcc = (GArray *)&v_sd;
	bidib_track_state.peripherals = (GArray *)&v_pe; bidib_track_state.segments = (GArray *)&v_sg; bidib_track_state.reversers = (GArray *)&v_rv; bidib_track_state.trains = (GArray *)&v_tr;
	bidib_track_state.boosters = (GArray *)&v_bo; bidib_track_state.track_outputs = (GArray *)&v_to;
	/* aspect ids as feedback leaves them: NULL or an own heap string - a reset must release them (C16: "releases all memory", finding D29) */
	for (int k = 0; k < N; k++) { _Bool h; char *x = malloc(2); __CPROVER_assume(x != NULL); if (h) { pb[k].data.state_id = x; sb[k].data.state_id = NULL; } else { pb[k].data.state_id = NULL; sb[k].data.state_id = x; }
		char *y = malloc(2), *z = malloc(2), *w = malloc(2), *v = malloc(2); __CPROVER_assume(y != NULL && z != NULL && w != NULL && v != NULL); pd[k].data.state_id = y; sd[k].data.state_id = z; pe[k].data.state_id = w; rv[k].data.state_id = v; }
	for (int k = 0; k < N; k++) { guint na, nf; __CPROVER_assume(na <= 2 && nf <= 2); mk(&v_ad[k], ad[k], na, sizeof ad[0][0]); sg[k].dcc_addresses = (GArray *)&v_ad[k]; mk(&v_fn[k], fn[k], nf, sizeof fn[0][0]); tr[k].peripherals = (GArray *)&v_fn[k]; }
	VP_COVER(v_ad[1].len == 2 && !sg[1].occupied && sg[1].power_consumption.known); VP_COVER(v_fn[0].len == 2);
	bidib_state_reset();
	for (int k = 0; k < N; k++) {
		__CPROVER_assert(pb[k].data.state_id == NULL && pb[k].data.state_value == 0 && pb[k].data.execution_state == BIDIB_EXEC_STATE_REACHED && pb[k].data.wait_details == 0 &&
		                 sb[k].data.state_id == NULL && sb[k].data.state_value == 0 && sb[k].data.execution_state == BIDIB_EXEC_STATE_REACHED && sb[k].data.wait_details == 0, "C07.reset.every_board_point_and_signal_initial");
		__CPROVER_assert(pd[k].data.state_id == NULL && pd[k].data.state_value == 0 && pd[k].data.time_unit == BIDIB_TIMEUNIT_MILLISECONDS && pd[k].data.switch_time == 0 &&
		                 sd[k].data.state_id == NULL && sd[k].data.state_value == 0 && sd[k].data.time_unit == BIDIB_TIMEUNIT_MILLISECONDS && sd[k].data.switch_time == 0, "C07.reset.every_dcc_point_and_signal_initial");
		__CPROVER_assert(pe[k].data.state_id == NULL && pe[k].data.state_value == 0 && pe[k].data.time_unit == BIDIB_TIMEUNIT_MILLISECONDS && pe[k].data.wait == 0, "C07.reset.every_peripheral_initial");
		__CPROVER_assert(!sg[k].occupied && !sg[k].confidence.conf_void && !sg[k].confidence.freeze && !sg[k].confidence.nosignal && !sg[k].power_consumption.known && !sg[k].power_consumption.overcurrent &&
		                 sg[k].power_consumption.current == 0 && sg[k].dcc_addresses->len == 0, "C07.reset.every_segment_free_unmeasured_and_without_addresses");
		__CPROVER_assert(rv[k].data.state_id == NULL && rv[k].data.state_value == BIDIB_REV_EXEC_STATE_UNKNOWN, "C07.reset.every_reverser_unknown");
		__CPROVER_assert(!tr[k].on_track && tr[k].orientation == BIDIB_TRAIN_ORIENTATION_LEFT && tr[k].set_speed_step == 0 && tr[k].detected_kmh_speed == 0 && tr[k].set_is_forwards && tr[k].ack == BIDIB_DCC_ACK_PENDING &&
		                 !tr[k].decoder_state.signal_quality_known && !tr[k].decoder_state.temp_known && !tr[k].decoder_state.energy_storage_known, "C07.reset.every_train_stopped_off_track_forwards");
		for (guint j = 0; j < 2; j++) if (j < v_fn[k].len) __CPROVER_assert(fn[k][j].state == 0, "C07.reset.every_train_function_off");
		__CPROVER_assert(bo[k].data.power_state == BIDIB_BSTR_OFF && bo[k].data.power_state_simple == bidib_booster_normal_to_simple(BIDIB_BSTR_OFF) && !bo[k].data.power_consumption.known && !bo[k].data.voltage_known && !bo[k].data.temp_known, "C07.reset.every_booster_off_unmeasured");
		__CPROVER_assert(to[k].cs_state == BIDIB_CS_OFF, "C07.reset.every_track_output_off");
	}
}
