/* C08: bidib_state_update_train_available - for every tracked train: on_track <=> its position query lists at least one segment,
 * orientation = the one reported with the address.  bidib_get_train_position_intern replaced by its contract (arbitrary result per train).
 * Bounded stand-in: exactly VP_NTRAINS (3) tracked trains. */
#include "vp_common.h"
#include "vp_syslog.h"
#include <pthread.h>
#include <time.h>
#define clock_gettime(id, ts) ((ts)->tv_sec = 0, (ts)->tv_nsec = 0, 0)
#include "src/state/bidib_state.c"
#include "vp_glib.h"
gpointer vp_q_fresh(GQueue *q) { return NULL; }
void vp_q_pushed(GQueue *q, gpointer e) {}
void vp_q_popped(GQueue *q, gpointer e) {}
#define VP_NTRAINS 3
size_t g_len[VP_NTRAINS]; _Bool g_left[VP_NTRAINS]; unsigned g_queries, g_frees; GString g_ids[VP_NTRAINS]; char g_idstr[VP_NTRAINS][2];
t_bidib_train_position_query bidib_get_train_position_intern(const char *train) {
	t_bidib_train_position_query q; unsigned k = 0;
	for (unsigned j = 0; j < VP_NTRAINS; j++) if (train == g_ids[j].str) k = j;
	q.length = g_len[k]; q.orientation_is_left = g_left[k]; q.segments = NULL; g_queries++;
	return q;
}
void bidib_free_train_position_query(t_bidib_train_position_query query) { g_frees++; }
void vp_harness(void) {
	static t_bidib_train_state_intern ts[VP_NTRAINS];
	t_bidib_train_state_intern before[VP_NTRAINS];
	for (unsigned k = 0; k < VP_NTRAINS; k++) {
		g_idstr[k][0] = 'a' + k; g_idstr[k][1] = 0; g_ids[k].str = g_idstr[k]; g_ids[k].len = 1; ts[k].id = &g_ids[k];
		ts[k].on_track = ts[k].on_track ? 1 : 0; g_left[k] = g_left[k] ? 1 : 0;
		__CPROVER_assume(ts[k].orientation == BIDIB_TRAIN_ORIENTATION_LEFT || ts[k].orientation == BIDIB_TRAIN_ORIENTATION_RIGHT);
		before[k] = ts[k];
	}
	vp_garray arr; arr.data = (gchar *)ts; arr.len = VP_NTRAINS; arr.elt_size = sizeof ts[0];
	bidib_track_state.trains = (GArray *)&arr;
	g_queries = g_frees = 0;
	bidib_state_update_train_available();
	VP_COVER(ts[0].on_track && !ts[1].on_track);
	for (unsigned k = 0; k < VP_NTRAINS; k++) {
		__CPROVER_assert(ts[k].on_track == (g_len[k] > 0), "C08.update.on_track_iff_some_segment_lists_the_address");
		if (g_len[k] > 0) __CPROVER_assert(ts[k].orientation == (g_left[k] ? BIDIB_TRAIN_ORIENTATION_LEFT : BIDIB_TRAIN_ORIENTATION_RIGHT), "C08.update.orientation_is_the_one_reported_with_the_address");
		__CPROVER_assert(ts[k].set_speed_step == before[k].set_speed_step && ts[k].ack == before[k].ack && ts[k].id == before[k].id, "C08.update.other_train_state_untouched");
	}
	__CPROVER_assert(g_queries == VP_NTRAINS && g_frees == VP_NTRAINS, "C17.update.every_position_query_freed_once");
}
