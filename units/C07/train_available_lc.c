/* C08 (proof unit): bidib_state_update_train_available for ANY number of tracked trains (loop contract, no unwinding of the real loop).
 * For one watched train K chosen arbitrarily among the N tracked ones: afterwards on_track <=> its position query lists at least one
 * segment, orientation = the one reported with the address, speed step / ack / id untouched; every query result is released once.
 * bidib_get_train_position_intern is replaced by its contract (arbitrary result per train; its body is unit C08.train_position).
 * The harness array holds up to VP_CAP trains: that is the size of the memory model, not an unwinding bound (N is arbitrary in 0..VP_CAP
 * and the loop is closed by its invariant). */
#include "vp_common.h"
#include "vp_syslog.h"
#include <pthread.h>
#include <time.h>
#define clock_gettime(id, ts) ((ts)->tv_sec = 0, (ts)->tv_nsec = 0, 0)
#include "src/state/bidib_state.c"
#include "vp_glib.h"
gpointer vp_q_fresh(GQueue *q) { return NULL; }
void vp_q_pushed(GQueue *q, gpointer e) {}
void vp_q_popped(GQueue *q, gpointer e) {}
#ifndef VP_CAP
#define VP_CAP 16
#endif
t_bidib_train_state_intern vp_ts[VP_CAP];
GString g_ids[VP_CAP]; char g_idstr[VP_CAP][2];
size_t g_len[VP_CAP]; _Bool g_left[VP_CAP];
unsigned long g_queries, g_frees, g_n, g_k;
int g_exp_or, g_b_step, g_b_ack;
vp_garray vp_arr;
t_bidib_train_position_query bidib_get_train_position_intern(const char *train) {
	t_bidib_train_position_query q;
	/* stub precondition: the argument is the id string of a tracked train (assumed; a reach marker behind the call guards against vacuity) */
	__CPROVER_assume(__CPROVER_same_object(train, g_idstr) && __CPROVER_POINTER_OFFSET(train) % 2 == 0);
	unsigned long k = __CPROVER_POINTER_OFFSET(train) / 2;
	if (k >= VP_CAP) k = 0;
	q.length = g_len[k]; q.orientation_is_left = g_left[k]; q.segments = NULL; g_queries++;
	return q;
}
void bidib_free_train_position_query(t_bidib_train_position_query query) { g_frees++; }
void vp_harness(void) {
	VP_IN(unsigned long, g_n); VP_IN(unsigned long, g_k);
	__CPROVER_assume(g_n <= VP_CAP && g_k < g_n);
	for (unsigned k = 0; k < VP_CAP; k++) {
		g_idstr[k][0] = 'a'; g_idstr[k][1] = 0; g_ids[k].str = g_idstr[k]; g_ids[k].len = 1; vp_ts[k].id = &g_ids[k];
		vp_ts[k].on_track = vp_ts[k].on_track ? 1 : 0; g_left[k] = g_left[k] ? 1 : 0;
	}
	g_exp_or = g_left[g_k] ? BIDIB_TRAIN_ORIENTATION_LEFT : BIDIB_TRAIN_ORIENTATION_RIGHT;
	g_b_step = vp_ts[g_k].set_speed_step; g_b_ack = vp_ts[g_k].ack;
	vp_arr.data = (gchar *)vp_ts; vp_arr.len = g_n; vp_arr.elt_size = sizeof vp_ts[0];
	bidib_track_state.trains = (GArray *)&vp_arr;
	g_queries = g_frees = 0;
	bidib_state_update_train_available();
	VP_COVER(vp_ts[g_k].on_track && g_n > 3 && g_k == 2);
	VP_COVER(!vp_ts[g_k].on_track);
	__CPROVER_assert(vp_ts[g_k].on_track == (g_len[g_k] > 0), "C08.update.on_track_iff_some_segment_lists_the_address");
	if (g_len[g_k] > 0) __CPROVER_assert((int)vp_ts[g_k].orientation == g_exp_or, "C08.update.orientation_is_the_one_reported_with_the_address");
	__CPROVER_assert((int)vp_ts[g_k].set_speed_step == g_b_step && (int)vp_ts[g_k].ack == g_b_ack && vp_ts[g_k].id == &g_ids[g_k], "C08.update.other_train_state_untouched");
	__CPROVER_assert(g_queries == g_n && g_frees == g_n, "C17.update.every_position_query_freed_once");
}
