from vpkg.core import Unit
from vpkg import csrc
_t = csrc.Tree()
_ss = [f.name for f in _t.by_file["/repo/src/state/bidib_state_setter.c"]]
_st = [f.name for f in _t.by_file["/repo/src/state/bidib_state.c"]]
UNITS = [
    Unit(name="C07.bm_current", src="units/C07/bm_current.c", functions=["bidib_state_bm_current"], props=["C07"], no_dfcc=True,
         remove_bodies=[f for f in _ss if f != "bidib_state_bm_current"], extra_flags=["--nondet-static"], covers=2, min_obligations=8,
         stubbed_contracts=["bidib_state_get_segment_state_ref_by_nodeaddr"], note="loop-free: complete over all 256 codes, known/unknown segment, arbitrary previous state"),
    Unit(name="C08.update_train_available", src="units/C07/train_available.c", functions=["bidib_state_update_train_available"], props=["C08"], no_dfcc=True,
         kind="bounded", bound="exactly 3 tracked trains (loop unwound completely for that size); arbitrary query result per train",
         remove_bodies=[f for f in _st if f != "bidib_state_update_train_available"], extra_flags=["--nondet-static", "--unwind", "5"], covers=1, min_obligations=8,
         stubbed_contracts=["bidib_get_train_position_intern", "bidib_free_train_position_query"]),
    Unit(name="C08.bm_occ", src="units/C07/bm_occ.c", functions=["bidib_state_bm_occ"], props=["C08", "C07"], no_dfcc=True,
         kind="bounded", bound="segment lists at most 3 decoder addresses (loops unwound completely for that size)",
         remove_bodies=[f for f in _ss if f != "bidib_state_bm_occ"], extra_flags=["--nondet-static", "--unwind", "12"], covers=2, min_obligations=8, timeout=200,
         stubbed_contracts=["bidib_state_get_segment_state_ref_by_nodeaddr", "bidib_state_update_train_available", "bidib_state_log_train_detect"]),
] + [
    Unit(name="C07." + n, src="units/C07/setters2.c", defines=[d], functions=[fn], props=pr, no_dfcc=True, kind=kind, bound=bound,
         remove_bodies=[f for f in _ss if f != fn], extra_flags=["--nondet-static", "--unwind", "14"], covers=2, min_obligations=6, timeout=300,
         stubbed_contracts=["bidib_state_get_*_ref* (lookup: NULL or an arbitrary element)"], note="logging arguments evaluated; wire values arbitrary")
    for n, d, fn, pr, kind, bound in [
        ("boost_state", "VP_H_BOOST_STATE", "bidib_state_boost_state", ["C07"], "proof", ""),
        ("cs_state", "VP_H_CS_STATE", "bidib_state_cs_state", ["C07", "C12"], "proof", ""),
        ("cs_drive_ack", "VP_H_CS_DRIVE_ACK", "bidib_state_cs_drive_ack", ["C07"], "proof", ""),
        ("cs_accessory_ack", "VP_H_CS_ACCESSORY_ACK", "bidib_state_cs_accessory_ack", ["C07"], "proof", ""),
        ("lc_wait", "VP_H_LC_WAIT", "bidib_state_lc_wait", ["C07"], "proof", ""),
        ("boost_diagnostic", "VP_H_DIAGNOSTIC", "bidib_state_boost_diagnostic", ["C07", "C12"], "bounded", "diagnostic list of at most 6 bytes (3 key/value pairs), every byte arbitrary; loop unwound completely for that size"),
        ("vendor", "VP_H_VENDOR", "bidib_state_vendor", ["C12"], "bounded", "vendor data of 2..12 bytes, every byte (incl. the two embedded lengths) arbitrary"),
    ]
]
