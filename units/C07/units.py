from vpkg.core import Unit
from vpkg import csrc
_t = csrc.Tree()
_ss = [f.name for f in _t.by_file[csrc.REPO + "/src/state/bidib_state_setter.c"]]
_st = [f.name for f in _t.by_file[csrc.REPO + "/src/state/bidib_state.c"]]
UNITS = [
    Unit(name="C07.bm_current", src="units/C07/bm_current.c", functions=["bidib_state_bm_current"], props=["C07"], no_dfcc=True,
         remove_bodies=[f for f in _ss if f != "bidib_state_bm_current"], extra_flags=["--nondet-static"], covers=2, min_obligations=8,
         stubbed_contracts=["bidib_state_get_segment_state_ref_by_nodeaddr"], note="loop-free: complete over all 256 codes, known/unknown segment, arbitrary previous state"),
    Unit(name="C08.update_train_available", src="units/C07/train_available.c", functions=["bidib_state_update_train_available"], props=["C08"], no_dfcc=True,
         kind="bounded", bound="exactly 3 tracked trains (loop unwound completely for that size); arbitrary query result per train",
         remove_bodies=[f for f in _st if f != "bidib_state_update_train_available"], extra_flags=["--nondet-static", "--unwind", "5"], covers=1, min_obligations=8,
         stubbed_contracts=["bidib_get_train_position_intern", "bidib_free_train_position_query"]),
    Unit(name="C08.update_train_available_any_n", src="units/C07/train_available_lc.c", functions=["bidib_state_update_train_available"], props=["C08"],
         remove_bodies=[f for f in _st if f != "bidib_state_update_train_available"],
         loops=[{"function": "bidib_state_update_train_available", "anchor": r"for \(size_t i = 0; i < bidib_track_state\.trains->len",
                 "invariants": "i <= g_n && g_queries == i && g_frees == i && "
                               + " && ".join("vp_ts[%d].id == &g_ids[%d]" % (q, q) for q in range(16)) + " && "
                               
                               "vp_ts[g_k].set_speed_step == g_b_step && (int)vp_ts[g_k].ack == g_b_ack && "
                               "(g_k < i ==> ((vp_ts[g_k].on_track != 0) == (g_len[g_k] > 0) && (vp_ts[g_k].on_track == 0 || vp_ts[g_k].on_track == 1) && "
                               "(g_len[g_k] > 0 ==> (int)vp_ts[g_k].orientation == g_exp_or)))",
                 "assigns": "i, train_state, query, __CPROVER_object_whole(vp_ts), g_queries, g_frees",
                 "decreases": "g_n - i"}],
         unwindset={"vp_harness.0": 17}, unwind_reason="constant set-up loop of the harness only; the loop of bidib_state_update_train_available carries a loop contract",
         timeout=300, covers=2, min_obligations=10,
         stubbed_contracts=["bidib_get_train_position_intern (arbitrary result per train)", "bidib_free_train_position_query (counted)"],
         note="any number N of tracked trains (harness memory holds up to 16; N arbitrary in 0..16, loop closed by its invariant, not unwound), one arbitrary watched train K"),
    Unit(name="C07.state_reset", src="units/C07/state_reset.c", functions=["bidib_state_reset", "bidib_booster_normal_to_simple"], props=["C07", "C20", "C16"], no_dfcc=True, kind="bounded",
         bound="2 tracked entities of every kind with arbitrary previous content (segments with 0..2 addresses, trains with 0..2 functions); loops unwound completely",
         remove_bodies=[f for f in _st if f not in ("bidib_state_reset", "bidib_booster_normal_to_simple")], extra_flags=["--nondet-static", "--unwind", "8", "--unwindset", "vp_bytes.0:8", "--memory-leak-check"], covers=2, min_obligations=10, timeout=300,
         note="CBMC --memory-leak-check: the aspect ids held before the reset are released"),
    Unit(name="C08.train_position", src="units/C07/train_position.c", functions=["bidib_get_train_position_intern"], props=["C08"], no_dfcc=True,
         kind="bounded", bound="2 segments with 0..2 listed decoder addresses each (arbitrary content); loops unwound completely (3 segments did not finish in 300 s)",
         remove_bodies=[f.name for f in _t.by_file[csrc.REPO + "/src/highlevel/bidib_highlevel_getter.c"] if f.name != "bidib_get_train_position_intern"],
         extra_flags=["--nondet-static", "--unwind", "5"], covers=4, min_obligations=8, timeout=300,
         stubbed_contracts=["bidib_state_get_train_ref / bidib_state_get_train_state_ref (NULL or the element)"]),
    Unit(name="C08.bm_occ", src="units/C07/bm_occ.c", functions=["bidib_state_bm_occ"], props=["C08", "C07"], no_dfcc=True,
         kind="bounded", bound="segment lists at most 3 decoder addresses (loops unwound completely for that size)",
         remove_bodies=[f for f in _ss if f != "bidib_state_bm_occ"], extra_flags=["--nondet-static", "--unwind", "12"], covers=2, min_obligations=8, timeout=200,
         stubbed_contracts=["bidib_state_get_segment_state_ref_by_nodeaddr", "bidib_state_update_train_available", "bidib_state_log_train_detect"]),
] + [
    Unit(name="C07." + n, src="units/C07/bm_addr.c", defines=defs, functions=fns, props=pr, no_dfcc=True, kind="bounded", bound=bound,
         remove_bodies=[f for f in _ss if f not in fns], extra_flags=["--nondet-static", "--unwind", "14"], covers=3, min_obligations=6, timeout=600,
         stubbed_contracts=["bidib_state_get_segment_state_ref* (lookup: NULL or an element)", "bidib_state_update_train_available (ghost: counts calls, samples the spec at call time)",
                            "bidib_state_get_segment_state / bidib_state_free_single_segment_state_intern (copy / release, counted)"],
         note="logging arguments evaluated; message bytes arbitrary; the byte buffers are allocated with exactly the length the dispatcher guarantees, so over-reads are reported")
    for n, defs, fns, pr, bound in [
        ("bm_address", ["VP_H_BM_ADDRESS", "VP_GLIB_FIXED_CAP=3"], ["bidib_state_bm_address", "bidib_state_bm_address_log_changes", "bidib_state_log_train_detect"], ["C07", "C08"],
         "at most 3 reported addresses, segment previously lists at most 2 (loops unwound completely for these sizes)"),
        ("bm_multiple", ["VP_H_BM_MULTIPLE", "VP_MAXBITS=12", "VP_GLIB_FIXED_CAP=3"], ["bidib_state_bm_multiple", "bidib_state_log_train_detect"], ["C07", "C08"],
         "at most 12 reported bits (two data bytes), any base number; one watched segment number (arbitrary) + a sink for all others; segment previously lists at most 2 addresses"),
        ("bm_confidence", ["VP_H_BM_CONFIDENCE"], ["bidib_state_bm_confidence"], ["C07"], "board with at most 2 segments"),
    ]
] + [
    Unit(name="C07." + n, src="units/C07/setters2.c", defines=[d], functions=[fn], props=pr, no_dfcc=True, kind=kind, bound=bound,
         remove_bodies=[f for f in _ss if f != fn], extra_flags=["--nondet-static", "--unwind", "34"], covers=2, min_obligations=6, timeout=300,
         stubbed_contracts=["bidib_state_get_*_ref* (lookup: NULL or an arbitrary element)"], note="logging arguments evaluated; wire values arbitrary")
    for n, d, fn, pr, kind, bound in [
        ("boost_state", "VP_H_BOOST_STATE", "bidib_state_boost_state", ["C07"], "proof", ""),
        ("cs_state", "VP_H_CS_STATE", "bidib_state_cs_state", ["C07", "C12"], "proof", ""),
        ("cs_drive_ack", "VP_H_CS_DRIVE_ACK", "bidib_state_cs_drive_ack", ["C07"], "proof", ""),
        ("cs_accessory_ack", "VP_H_CS_ACCESSORY_ACK", "bidib_state_cs_accessory_ack", ["C07"], "proof", ""),
        ("lc_wait", "VP_H_LC_WAIT", "bidib_state_lc_wait", ["C07"], "proof", ""),
        ("cs_accessory_manual", "VP_H_CS_ACC_MANUAL", "bidib_state_cs_accessory_manual", ["C07"], "proof", ""),
        ("cs_accessory", "VP_H_CS_ACC", "bidib_state_cs_accessory", ["C07", "C09"], "proof", ""),
        ("bm_speed", "VP_H_BM_SPEED", "bidib_state_bm_speed", ["C07"], "proof", ""),
        ("bm_dyn_state", "VP_H_BM_DYN_STATE", "bidib_state_bm_dyn_state", ["C07"], "proof", ""),
        ("cs_drive", "VP_H_CS_DRIVE", "bidib_state_cs_drive", ["C07", "C09"], "proof", ""),
        ("accessory_state", "VP_H_ACCESSORY_STATE", "bidib_state_accessory_state", ["C07"], "bounded", "accessory with 1 or 2 configured aspects (the parser rejects an empty list; assumed invariant) (arbitrary distinct values); loop unwound completely"),
        ("lc_stat", "VP_H_LC_STAT", "bidib_state_lc_stat", ["C07"], "bounded", "peripheral with at most 2 configured aspects (arbitrary distinct values); loop unwound completely"),
        ("boost_diagnostic", "VP_H_DIAGNOSTIC", "bidib_state_boost_diagnostic", ["C07", "C12"], "bounded", "diagnostic list of at most 6 bytes (3 key/value pairs), every byte arbitrary; loop unwound completely for that size"),
        ("vendor", "VP_H_VENDOR", "bidib_state_vendor", ["C12"], "bounded", "vendor data of 2..12 bytes, every byte (incl. the two embedded lengths) arbitrary"),
    ]
]
