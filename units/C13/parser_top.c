/* C13: the three top-level configuration-file functions (bidib_config_parse_{board,track,train}_config; the source file is
 * chosen by -DVP_PARSER_SRC, the function by -DVP_TOP_FN) and bidib_config_init_parser / bidib_config_parse_scalar_then_section.
 * Resource ledger: a file that was opened is closed exactly once, a parser that was initialised is deleted exactly once,
 * neither is touched when opening / initialising failed (fclose(NULL) and yaml_parser_delete on an uninitialised parser crash). */
#ifdef VP_H_TOP
#define VP_NO_STATE_FREE
#include "parser_prelude.h"
int g_open, g_init; unsigned g_closes, g_deletes, g_bad;
void bidib_state_free_single_board(t_bidib_board b) {}
void bidib_state_free_single_train(t_bidib_train t) {}
void bidib_state_free_single_train_state_intern(t_bidib_train_state_intern t) {}
static FILE *const g_file = (FILE *)&g_open;
bool bidib_config_init_parser(const char *config_dir, const char *config_file, FILE **fh, yaml_parser_t *parser) {
	_Bool fail; if (fail) return true;          /* on failure *fh and *parser are left as they were (uninitialised in the callers) */
	*fh = g_file; g_open = 1; g_init = 1; return false;
}
bool bidib_config_parse_scalar_then_section(yaml_parser_t *parser, char *scalar, bool (*section_elem_action)(yaml_parser_t *)) {
	if (!g_init) g_bad++;                        /* parsing with a parser that was never initialised */
	_Bool e; return e;
}
void yaml_parser_delete(yaml_parser_t *parser) { if (g_init != 1) g_bad++; g_init = 2; g_deletes++; }
int fclose(FILE *f) { if (f != g_file || g_open != 1) g_bad++; g_open = 2; g_closes++; return 0; }
void vp_harness(void) {
	g_open = 0; g_init = 0; g_closes = g_deletes = g_bad = 0;
	int r = VP_TOP_FN("d");
	VP_COVER(g_open == 0 && r); VP_COVER(g_open == 2 && !r); VP_COVER(g_open == 2 && r);
	__CPROVER_assert(g_bad == 0, "C13.config_file.parser_and_file_are_only_used_closed_deleted_after_a_successful_open");
	__CPROVER_assert(g_open != 1 && g_init != 1, "C13.config_file.opened_file_closed_and_initialised_parser_deleted_before_return");
	__CPROVER_assert(g_closes <= 1 && g_deletes <= 1, "C13.config_file.closed_and_deleted_at_most_once");
	__CPROVER_assert(g_open != 0 || r != 0, "C13.config_file.missing_or_unreadable_file_is_reported_as_an_error");
}
#else
#define VP_NO_STATE_FREE
#define VP_PARSER_SRC "src/parser/bidib_config_parser.c"
#include "parser_prelude.h"
unsigned g_sections; _Bool g_section_err;
static bool section(yaml_parser_t *p) { __CPROVER_assert(vp_live == 1, "C13.section.called_while_its_mapping_start_event_is_still_held"); g_sections++; return g_section_err; }
void vp_harness(void) {
	vp_live = 0; vp_parsed = 0; vp_scalars = 0; g_sections = 0; VP_IN(_Bool, g_section_err);
	bool err = bidib_config_parse_scalar_then_section(&g_parser, "boards", section);
	VP_COVER(!err && g_sections == 1); VP_COVER(err && g_sections == 1); VP_COVER(err && vp_parsed == 1);
	VP_LEDGER_AT_RETURN();
	if (g_section_err && g_sections > 0) __CPROVER_assert(err, "C13.section.an_error_in_a_section_element_fails_the_whole_file");
}
#endif
