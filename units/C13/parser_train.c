/* C13 / C14: the train-configuration parser functions against an arbitrary bounded event stream (see parser_track.c). */
#define VP_PARSER_SRC "src/parser/bidib_config_parser_train.c"
#include "parser_prelude.h"
unsigned g_add_train, g_add_state, g_init_train; _Bool g_dup;
bool bidib_state_add_train(t_bidib_train t) { __CPROVER_assert(t.id != NULL, "C14.train_registered_with_an_id"); g_add_train++; return g_dup; }
void bidib_state_add_train_state(t_bidib_train_state_intern s) { __CPROVER_assert(s.id != NULL, "C14.train_state_registered_with_an_id"); g_add_state++; }
void bidib_state_add_initial_train_value(t_bidib_state_train_initial_value v) { __CPROVER_assert(v.train != NULL && v.id != NULL, "C14.train_initial_value_registered_with_train_and_function_id"); g_init_train++; }

/* bidib_string_to_byte (proved in C14.to_byte) replaced by its contract: fails, or delivers an arbitrary byte - the k-th call's outcome is recorded */
_Bool g_byte_err[12]; uint8_t g_byte_val[12]; unsigned g_byte_calls;
bool bidib_string_to_byte(char *string, uint8_t *byte) { unsigned k = g_byte_calls++ % 12; if (!g_byte_err[k]) *byte = g_byte_val[k]; return g_byte_err[k]; }
void vp_harness(void) {
	vp_live = 0; vp_parsed = 0; vp_scalars = 0; vp_nested_calls = 0; vp_parse_failed = 0; g_byte_calls = 0; g_add_train = g_add_state = g_init_train = 0; VP_IN(_Bool, g_dup);
#if defined(VP_H_CALIBRATION)
	t_bidib_train train; train.id = mkstr("t"); train.calibration = NULL;
	bool err = bidib_config_parse_single_train_calibration(&g_parser, &train);
	VP_COVER(!err); VP_COVER(err && vp_parsed >= 2);
	VP_LEDGER_AT_RETURN();
	if (err) __CPROVER_assert(train.calibration == NULL, "C13.calibration.rejected_list_released_and_cleared");
	else { __CPROVER_assert(train.calibration != NULL && train.calibration->len == 9, "C14.calibration.accepted_iff_exactly_9_values");
	       for (guint k = 0; k < 9; k++) __CPROVER_assert(g_array_index(train.calibration, int, k) <= 126, "C14.calibration.every_value_at_most_126"); }
#elif defined(VP_H_TRAIN_PERIPH)
	t_bidib_train train; train.id = mkstr("t"); train.peripherals = g_array_sized_new(FALSE, FALSE, sizeof(t_bidib_train_peripheral_mapping), 4);
	t_bidib_train_state_intern ts; ts.id = mkstr("t"); ts.peripherals = g_array_sized_new(FALSE, FALSE, sizeof(t_bidib_train_peripheral_state), 4);
	guint n; __CPROVER_assume(n <= 2);
	for (guint k = 0; k < 2; k++) if (k < n) { t_bidib_train_peripheral_mapping m; m.id = mkstr(k ? "q" : "p"); vp_garray_append1(train.peripherals, &m, sizeof m);
		t_bidib_train_peripheral_state s; s.id = vp_strdup3(k ? "q" : "p"); vp_garray_append1(ts.peripherals, &s, sizeof s); }
	bool err = bidib_config_parse_single_train_peripheral(&g_parser, &train, &ts);
	VP_COVER(!err && n == 2); VP_COVER(err && vp_parsed == 1 && n == 2); VP_COVER(err && vp_parsed >= 5 && n == 2);
	VP_LEDGER_AT_RETURN();
	if (!err) {
		__CPROVER_assert(train.peripherals->len == n + 1 && ts.peripherals->len == n + 1, "C14.train_function.accepted_function_has_one_mapping_and_one_state");
		t_bidib_train_peripheral_mapping *m = &g_array_index(train.peripherals, t_bidib_train_peripheral_mapping, n);
		__CPROVER_assert(m->id != NULL && m->bit <= 31, "C14.train_function.bit_at_most_31");
		for (guint k = 0; k < 2; k++) if (k < n) __CPROVER_assert(g_array_index(train.peripherals, t_bidib_train_peripheral_mapping, k).bit != m->bit, "C14.train_function.duplicate_bit_rejected");
	} else __CPROVER_assert(ts.peripherals->len == n, "C13.train_function.rejected_function_leaves_no_state");
	/* C14: the legal range of a function bit is 0..31 inclusive - a record "id: <new>, bit: <0..31, unused>" is not rejected at the bit */
	if (VP_EV_IS(0, "id") && vp_parsed >= 4 && vp_ev_type[1] == YAML_SCALAR_EVENT && VP_EV_IS(2, "bit") && vp_ev_type[3] == YAML_SCALAR_EVENT && !g_byte_err[0] && g_byte_val[0] <= 31) {
		_Bool dup = 0;
		for (guint k = 0; k < 2; k++) if (k < n) { t_bidib_train_peripheral_mapping *e = &g_array_index(train.peripherals, t_bidib_train_peripheral_mapping, k);
			if (e->bit == g_byte_val[0] || vp_strcmp3(e->id->str, vp_pool[vp_ev_val[1]]) == 0) dup = 1; }
		VP_COVER(!dup && g_byte_val[0] == 31 && !err);
		if (!dup) __CPROVER_assert(!(err && vp_parsed == 4 && !vp_parse_failed), "C14.train_function.every_unused_bit_0_to_31_is_accepted");
	}
	/* C20: an accepted function with an initial value - 0 as well as 1 - is registered for start-up exactly once, one without is not */
	if (!err) __CPROVER_assert(g_init_train == (VP_EV_IS(4, "initial") ? 1u : 0u), "C20.train_function.initial_value_0_or_1_registered_for_startup_exactly_once");
#elif defined(VP_H_TRAIN)
	bool err = bidib_config_parse_single_train(&g_parser);
	VP_COVER(!err); VP_COVER(err && vp_parsed == 1); VP_COVER(err && g_dup && g_add_train == 1);
	VP_LEDGER_AT_RETURN();
	__CPROVER_assert(g_add_state == ((!err) ? 1u : 0u) && g_add_train <= 1, "C14.train.state_registered_iff_the_train_is_accepted");
#endif
}
