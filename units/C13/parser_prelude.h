/* common prelude of the parser wrappers: model headers and the textual redirections applied to the real source that the
 * wrapper includes next (define VP_PARSER_SRC before including this file) */
#include "vp_common.h"
#include "vp_syslog_eval.h"
#include <pthread.h>
#define pthread_mutex_lock(m) 0
#define pthread_mutex_unlock(m) 0
#define pthread_rwlock_rdlock(m) 0
#define pthread_rwlock_wrlock(m) 0
#define pthread_rwlock_unlock(m) 0
#include "vp_strtol.h"
#include <stdlib.h>
#include <string.h>
#include <stdio.h>
#include "parser_model.h"
#define strtol(a, b, c) vp_strtol(a, b, c)
#define strcmp(a, b) vp_strcmp3((a), (b))
#define strdup(s) vp_strdup3(s)
#include <glib.h>
GArray *vp_garray_append1(GArray *array, const void *src, size_t n);
#undef g_array_append_val
#define g_array_append_val(a, v) vp_garray_append1((a), &(v), sizeof(v))   /* GLib's macro with the element size as a constant */
#define static
#include VP_PARSER_SRC
#undef static
#undef strtol
#include "vp_glib.h"
gpointer vp_q_fresh(GQueue *q) { return NULL; }
void vp_q_pushed(GQueue *q, gpointer e) {}
void vp_q_popped(GQueue *q, gpointer e) {}
static yaml_parser_t g_parser;
#ifdef VP_SHORT
#define VP_COVER_LONG(x) ((void)0)   /* needs a stream long enough to accept a full record: thorough-tier variant only */
#else
#define VP_COVER_LONG(x) VP_COVER(x)
#endif
static GString *mkstr(const char *s) { return g_string_new(s); }
#ifndef VP_NO_STATE_FREE
#include "src/state/bidib_state_free.c"
#endif
extern unsigned vp_nested_calls, vp_last_section_type;
