/* Model of the libyaml event API and of stdio for the configuration-parser units (assumed contracts, trusted base).
 *   yaml_parser_parse : fails (returns 0, no event) or delivers one event of ANY type; a scalar's value is any string of the
 *                       unit's pool VP_POOL (all key names the function under proof compares against + sample values);
 *                       at most VP_MAX_EVENTS events, then it fails (bounded stand-in, bound stated per unit).
 *   ledger            : an event delivered by yaml_parser_parse is "live" until yaml_event_delete; parsing while the previous
 *                       event is live (leak), deleting an event that is not live (double delete / delete without parse) and
 *                       returning with a live event are obligations.
 * Nested parser functions are replaced by contracts (parser_stubs.c) and do not touch this function's ledger. */
#ifndef VP_PARSER_MODEL_H
#define VP_PARSER_MODEL_H
/* Closed-world string abstraction: every string of a parser unit (pool values, the literals the function compares against,
 * the harness' own ids) is identified by its first VP_STR_PREFIX (default 3) characters - checked by units/C13/units.py on every run - so
 * comparing / copying that many characters is exact for equality.  Conversions (bidib_string_to_byte ...) read the full pool string. */
#ifndef VP_STR_PREFIX
#define VP_STR_PREFIX 3
#endif
static int vp_strcmp3(const char *a, const char *b) {
	for (unsigned vp_k = 0; vp_k < VP_STR_PREFIX; vp_k++) {
		if (a[vp_k] != b[vp_k]) return (unsigned char)a[vp_k] - (unsigned char)b[vp_k];
		if (a[vp_k] == 0) return 0;
	}
	return 0;
}
static char *vp_strdup3(const char *s) {
	char *d = malloc(VP_STR_PREFIX + 1); __CPROVER_assume(d != NULL);
	unsigned n = 0; for (unsigned vp_k = 0; vp_k < VP_STR_PREFIX; vp_k++) { if (s[vp_k] == 0) break; d[vp_k] = s[vp_k]; n++; }
	d[n] = 0;
	return d;
}
#include <yaml.h>
static const char *const vp_pool[] = { VP_POOL };
#define VP_POOL_N (sizeof vp_pool / sizeof vp_pool[0])
int vp_live; unsigned vp_parsed; unsigned vp_scalars;
/* event log for clauses that speak about the stream: type and pool index of event k, whether the stream ended by a parse failure */
unsigned char vp_ev_type[32], vp_ev_val[32]; _Bool vp_parse_failed;
#define VP_EV_IS(k, str) ((k) < vp_parsed && vp_ev_type[k] == YAML_SCALAR_EVENT && vp_strcmp3(vp_pool[vp_ev_val[k]], (str)) == 0)
int yaml_parser_parse(yaml_parser_t *parser, yaml_event_t *event) {
	__CPROVER_assert(vp_live == 0, "C13.yaml.previous_event_released_before_the_next_is_parsed");
	if (vp_parsed >= VP_MAX_EVENTS) { vp_parse_failed = 1; return 0; }
	_Bool ok; if (!ok) { vp_parse_failed = 1; return 0; }
	vp_parsed++; vp_live = 1;
	unsigned t; __CPROVER_assume(t <= YAML_MAPPING_END_EVENT);
#ifdef VP_SCRIPT
	/* scripted variant: the event types and the KEY scalars follow the fixed well-formed sequence of one record; the VALUE
	 * scalars stay arbitrary pool strings (255 = arbitrary): cheap coverage of the accepting path and of every value error on it */
	unsigned vp_forced = 255;
	{ static const unsigned char vp_script[] = { VP_SCRIPT }; unsigned vp_i = 2 * (vp_parsed - 1);
	  if (vp_i + 1 >= sizeof vp_script) { vp_parsed--; vp_live = 0; return 0; }
	  t = vp_script[vp_i]; vp_forced = vp_script[vp_i + 1]; }
#endif
	event->type = (yaml_event_type_t)t;
	unsigned k; __CPROVER_assume(k < VP_POOL_N);
#ifdef VP_SCRIPT
	if (vp_forced != 255) k = vp_forced;
#endif
	event->data.scalar.value = (yaml_char_t *)vp_pool[k];
	if (vp_parsed - 1 < 32) { vp_ev_type[vp_parsed - 1] = (unsigned char)t; vp_ev_val[vp_parsed - 1] = (unsigned char)k; }
	if (t == YAML_SCALAR_EVENT) vp_scalars++;
	return 1;
}
void yaml_event_delete(yaml_event_t *event) {
	__CPROVER_assert(vp_live == 1, "C13.yaml.only_a_parsed_event_is_deleted_and_only_once");
	vp_live = 0;
}
#define VP_LEDGER_AT_RETURN() __CPROVER_assert(vp_live == 0, "C13.yaml.no_event_left_undeleted_at_return")
#endif
