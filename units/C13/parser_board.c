/* C13 / C14 / C19: the board-configuration parser function against an arbitrary bounded event stream (see parser_track.c). */
#define VP_PARSER_SRC "src/parser/bidib_config_parser_board.c"
#define VP_NO_STATE_FREE   /* bidib_state_free_single_board is proved on its own (C13.free_single_board) for fully built AND for empty boards; here: counted */
#include "parser_prelude.h"
unsigned g_free_board; _Bool g_freed_built;
void bidib_state_free_single_board(t_bidib_board b) {
	/* precondition of the real function (it dereferences every list unconditionally; proved safe under it in C13.free_single_board) */
	__CPROVER_assert(b.points_board != NULL && b.points_dcc != NULL && b.signals_board != NULL && b.signals_dcc != NULL && b.peripherals != NULL && b.segments != NULL && b.reversers != NULL,
	                 "C13.board.bidib_state_free_single_board_is_only_given_a_board_whose_lists_exist");
	g_free_board++; g_freed_built = (b.id != NULL);
}
unsigned g_add_board, g_add_booster, g_add_to; _Bool g_dup; t_bidib_board g_added;
bool bidib_state_add_board(t_bidib_board b) { __CPROVER_assert(b.id != NULL && b.features != NULL && b.points_board != NULL && b.segments != NULL && b.reversers != NULL, "C14.board_registered_with_id_and_all_its_lists"); g_add_board++; g_added = b; return g_dup; }
void bidib_state_add_booster(t_bidib_booster_state s) { __CPROVER_assert(s.id != NULL, "C14.booster_registered_with_an_id"); g_add_booster++; }
void bidib_state_add_track_output(t_bidib_track_output_state s) { __CPROVER_assert(s.id != NULL, "C14.track_output_registered_with_an_id"); g_add_to++; }
t_bidib_booster_power_state_simple bidib_booster_normal_to_simple(t_bidib_booster_power_state s) { t_bidib_booster_power_state_simple r; return r; }
_Bool g_uid_err; t_bidib_unique_id_mod g_uid;
bool bidib_string_to_uid(char *string, t_bidib_unique_id_mod *uid) { if (!g_uid_err) *uid = g_uid; return g_uid_err; }            /* proved in C14.to_uid */
_Bool g_byte_err[8]; uint8_t g_byte_val[8]; unsigned g_byte_calls;
bool bidib_string_to_byte(char *string, uint8_t *byte) { unsigned k = g_byte_calls++ % 8; if (!g_byte_err[k]) *byte = g_byte_val[k]; return g_byte_err[k]; }   /* proved in C14.to_byte */

void vp_harness(void) {
	vp_live = 0; vp_parsed = 0; vp_scalars = 0; vp_nested_calls = 0; g_add_board = g_add_booster = g_add_to = 0; g_free_board = 0; g_byte_calls = 0; VP_IN(_Bool, g_dup);
	bool err = bidib_config_parse_single_board_features(&g_parser);
	VP_COVER_LONG(!err && g_added.features->len == 1); VP_COVER(err && vp_parsed == 1); VP_COVER(err && g_dup && g_add_board == 1); VP_COVER(!err && g_add_booster == 1 && g_add_to == 1);
	VP_LEDGER_AT_RETURN();
	__CPROVER_assert(g_add_board <= 1 && (err || (g_add_board == 1 && !g_dup)), "C14.board.accepted_board_registered_exactly_once");
	__CPROVER_assert(g_free_board <= 1 && (!err ? g_free_board == 0 : 1), "C13.board.a_board_is_released_at_most_once_and_never_when_accepted");
	if (!err) {
		__CPROVER_assert(g_add_booster == ((g_uid.class_id & 2) ? 1u : 0u) && g_add_to == ((g_uid.class_id & 16) ? 1u : 0u), "C14.board.booster_and_track_output_registered_from_the_unique_id_class_bits");
		__CPROVER_assert(!g_added.connected && g_added.node_addr.top == 0 && g_added.node_addr.sub == 0 && g_added.node_addr.subsub == 0, "C15.board.configured_board_starts_disconnected");
		/* C19: Secure-ACK is on iff SOME listed feature 0x03 has a value > 0, wherever it stands in the list */
		_Bool want = 0; for (guint k = 0; k < 4; k++) if (k < g_added.features->len) { t_bidib_board_feature *f = &g_array_index(g_added.features, t_bidib_board_feature, k); if (f->number == 0x03 && f->value > 0) want = 1; }
		__CPROVER_assert(g_added.secack_on == want, "C19.board.secack_on_iff_feature_0x03_is_listed_with_a_value_above_0_at_any_position");
	}
}
