/* C13 / C14 / C20: the track-configuration parser functions, one at a time, against an arbitrary bounded event stream
 * (parser_model.h).  Obligations: no invalid pointer is dereferenced whatever the stream (C13: "never crashes"), the event
 * ledger is balanced (no leaked or doubly deleted event), plus the functional clauses named in each harness. */
#include "vp_common.h"
#include "vp_syslog_eval.h"
#include <pthread.h>
#define pthread_mutex_lock(m) 0
#define pthread_mutex_unlock(m) 0
#define pthread_rwlock_rdlock(m) 0
#define pthread_rwlock_wrlock(m) 0
#define pthread_rwlock_unlock(m) 0
#include "vp_strtol.h"
#include <stdlib.h>
#include <string.h>
#include "parser_model.h"
#define strtol(a, b, c) vp_strtol(a, b, c)
#define strcmp(a, b) vp_strcmp3((a), (b))
#define strdup(s) vp_strdup3(s)
#include <glib.h>
GArray *vp_garray_append1(GArray *array, const void *src, size_t n);
#undef g_array_append_val
#define g_array_append_val(a, v) vp_garray_append1((a), &(v), sizeof(v))   /* GLib's macro with the element size as a constant */
#define static
#include "src/parser/bidib_config_parser_track.c"
#undef static
#undef strtol
#include "vp_glib.h"
gpointer vp_q_fresh(GQueue *q) { return NULL; }
void vp_q_pushed(GQueue *q, gpointer e) {}
void vp_q_popped(GQueue *q, gpointer e) {}
static yaml_parser_t g_parser;
#ifdef VP_SHORT
#define VP_COVER_LONG(x) ((void)0)   /* needs a stream long enough to accept a record: thorough-tier variant only */
#else
#define VP_COVER_LONG(x) VP_COVER(x)
#endif
static GString *mkstr(const char *s) { return g_string_new(s); }
#include "src/state/bidib_state_free.c"
/* state registry: contracts of the add functions - a rejected record stays with the caller, an accepted one is owned by the registry */
unsigned g_init_point, g_init_signal, g_init_periph, g_add_calls; _Bool g_dup;
/* what the registry owns after the call (at most one record and one initial value per call); released in vp_release_all() the way
 * bidib_state_free releases the real tables - with CBMC's --memory-leak-check this decides "a rejected (or accepted) record leaves
 * nothing allocated that is not owned by the board or the registry" */
static t_bidib_state_initial_value o_iv; static _Bool o_iv_set; static int o_kind; static t_bidib_board_accessory_state o_bacc; static t_bidib_dcc_accessory_state o_dacc;
static t_bidib_peripheral_state o_per; static t_bidib_segment_state_intern o_seg; static t_bidib_reverser_state o_rev;
static void own_iv(t_bidib_state_initial_value v) { __CPROVER_assert(v.id != NULL && v.value != NULL, "C14.initial_value_registered_with_id_and_value"); __CPROVER_assert(!o_iv_set, "C14.at_most_one_initial_value_per_record"); o_iv = v; o_iv_set = 1; }
void bidib_state_add_initial_point_value(t_bidib_state_initial_value v) { own_iv(v); g_init_point++; }
void bidib_state_add_initial_signal_value(t_bidib_state_initial_value v) { own_iv(v); g_init_signal++; }
void bidib_state_add_initial_peripheral_value(t_bidib_state_initial_value v) { own_iv(v); g_init_periph++; }
#define VP_ADD(k, slot) { __CPROVER_assert(s.id != NULL, "C14.state_registered_with_an_id"); g_add_calls++; if (!g_dup) { __CPROVER_assert(o_kind == 0, "C14.at_most_one_state_per_record"); slot = s; o_kind = k; } return g_dup; }
bool bidib_state_add_board_point_state(t_bidib_board_accessory_state s) VP_ADD(1, o_bacc)
bool bidib_state_add_board_signal_state(t_bidib_board_accessory_state s) VP_ADD(1, o_bacc)
bool bidib_state_add_dcc_point_state(t_bidib_dcc_accessory_state s, t_bidib_dcc_address a) VP_ADD(2, o_dacc)
bool bidib_state_add_dcc_signal_state(t_bidib_dcc_accessory_state s, t_bidib_dcc_address a) VP_ADD(2, o_dacc)
bool bidib_state_add_peripheral_state(t_bidib_peripheral_state s) VP_ADD(3, o_per)
bool bidib_state_add_segment_state(t_bidib_segment_state_intern s) VP_ADD(4, o_seg)
bool bidib_state_add_reverser_state(t_bidib_reverser_state s) VP_ADD(5, o_rev)
static t_bidib_board g_board; _Bool g_board_known;
unsigned g_lookups;
t_bidib_board *bidib_state_get_board_ref(const char *board) { g_lookups++; return g_board_known ? &g_board : NULL; }
/* a board whose lists hold 0 or 1 earlier element each (valid members, arbitrary numbers) */
static void mkboard(void) {
	_Bool has;
	g_board.id = mkstr("B");
	g_board.points_board = g_array_sized_new(FALSE, FALSE, sizeof(t_bidib_board_accessory_mapping), 4);
	g_board.signals_board = g_array_sized_new(FALSE, FALSE, sizeof(t_bidib_board_accessory_mapping), 4);
	g_board.points_dcc = g_array_sized_new(FALSE, FALSE, sizeof(t_bidib_dcc_accessory_mapping), 4);
	g_board.signals_dcc = g_array_sized_new(FALSE, FALSE, sizeof(t_bidib_dcc_accessory_mapping), 4);
	g_board.peripherals = g_array_sized_new(FALSE, FALSE, sizeof(t_bidib_peripheral_mapping), 4);
	g_board.segments = g_array_sized_new(FALSE, FALSE, sizeof(t_bidib_segment_mapping), 4);
	g_board.reversers = g_array_sized_new(FALSE, FALSE, sizeof(t_bidib_reverser_mapping), 4);
	if (has) {
		t_bidib_board_accessory_mapping m; m.id = mkstr("p"); m.aspects = g_array_sized_new(FALSE, FALSE, sizeof(t_bidib_aspect), 3);
		vp_garray_append1(g_board.points_board, &m, sizeof m);
		t_bidib_board_accessory_mapping m2; m2.id = mkstr("p"); m2.aspects = g_array_sized_new(FALSE, FALSE, sizeof(t_bidib_aspect), 3);
		vp_garray_append1(g_board.signals_board, &m2, sizeof m2);
		t_bidib_peripheral_mapping pm; pm.id = mkstr("p"); pm.aspects = g_array_sized_new(FALSE, FALSE, sizeof(t_bidib_aspect), 3); vp_garray_append1(g_board.peripherals, &pm, sizeof pm);
		t_bidib_segment_mapping sm; sm.id = mkstr("p"); vp_garray_append1(g_board.segments, &sm, sizeof sm);
		t_bidib_dcc_accessory_mapping dm; dm.id = mkstr("p"); dm.aspects = g_array_sized_new(FALSE, FALSE, sizeof(t_bidib_dcc_aspect), 3);
		vp_garray_append1(g_board.points_dcc, &dm, sizeof dm);
		t_bidib_dcc_accessory_mapping dm2; dm2.id = mkstr("p"); dm2.aspects = g_array_sized_new(FALSE, FALSE, sizeof(t_bidib_dcc_aspect), 3);
		vp_garray_append1(g_board.signals_dcc, &dm2, sizeof dm2);
		t_bidib_reverser_mapping rm; rm.id = mkstr("p"); rm.cv = mkstr("7"); vp_garray_append1(g_board.reversers, &rm, sizeof rm);
	}
}

extern unsigned vp_nested_calls, vp_last_section_type;
/* release everything the way bidib_state_free does (real free functions): the board with its lists, the registered state and initial value */
static void vp_release_all(void) {
#ifdef VP_LEAKCHECK
	g_board.features = NULL;
	bidib_state_free_single_board(g_board);
	if (o_iv_set) bidib_state_free_single_initial_value(o_iv);
	if (o_kind == 1) bidib_state_free_single_board_accessory_state(o_bacc);
	if (o_kind == 2) bidib_state_free_single_dcc_accessory_state(o_dacc);
	if (o_kind == 3) bidib_state_free_single_peripheral_state(o_per);
	if (o_kind == 4) bidib_state_free_single_segment_state_intern(o_seg);
	if (o_kind == 5) bidib_state_free_single_reverser_state(o_rev);
#endif
}
void vp_harness(void) {
	o_iv_set = 0; o_kind = 0;
	vp_live = 0; vp_parsed = 0; vp_scalars = 0; vp_nested_calls = 0;
#if defined(VP_H_ASPECT)
	/* list with 0 or 1 earlier aspect (arbitrary value) */
	GArray *list = g_array_sized_new(FALSE, FALSE, sizeof(t_bidib_aspect), 3);
	_Bool has; if (has) { t_bidib_aspect a; a.id = mkstr("a"); vp_garray_append1(list, &a, sizeof a); }
	guint before = list->len;
	bool err = bidib_config_parse_aspect(&g_parser, list);
	VP_COVER_LONG(!err && has); VP_COVER(err && vp_parsed == 1 && has); VP_COVER(err && vp_parsed >= 5);
	VP_LEDGER_AT_RETURN();
	if (!err) {
		__CPROVER_assert(list->len == before + 1, "C14.aspect.accepted_aspect_appended_once");
		t_bidib_aspect *n = &g_array_index(list, t_bidib_aspect, before);
		__CPROVER_assert(n->id != NULL && n->id->str != NULL, "C14.aspect.accepted_aspect_has_an_id");
		if (has) __CPROVER_assert(n->value != g_array_index(list, t_bidib_aspect, 0).value && strcmp(n->id->str, "a") != 0, "C14.aspect.duplicate_id_or_value_rejected");
	}
#elif defined(VP_H_DCC_PORT)
	GArray *list = g_array_sized_new(FALSE, FALSE, sizeof(t_bidib_dcc_aspect_port_value), 3);
	_Bool has; if (has) { t_bidib_dcc_aspect_port_value v; vp_garray_append1(list, &v, sizeof v); }
	guint before = list->len;
	bool err = bidib_config_parse_dcc_aspect_port(&g_parser, list);
	VP_COVER_LONG(!err && has); VP_COVER(err && vp_parsed == 1 && has);
	VP_LEDGER_AT_RETURN();
	if (!err) {
		__CPROVER_assert(list->len == before + 1, "C14.dcc_port.accepted_port_appended_once");
		t_bidib_dcc_aspect_port_value *n = &g_array_index(list, t_bidib_dcc_aspect_port_value, before);
		__CPROVER_assert(n->value <= 1, "C14.dcc_port.value_is_0_or_1");
		if (has) __CPROVER_assert(n->port != g_array_index(list, t_bidib_dcc_aspect_port_value, 0).port, "C14.dcc_port.duplicate_port_rejected");
	}
#elif defined(VP_H_DCC_ASPECT)
	GArray *list = g_array_sized_new(FALSE, FALSE, sizeof(t_bidib_dcc_aspect), 3);
	_Bool has; if (has) { t_bidib_dcc_aspect a; a.id = mkstr("a"); a.port_values = g_array_sized_new(FALSE, FALSE, sizeof(t_bidib_dcc_aspect_port_value), 2);
		t_bidib_dcc_aspect_port_value v; vp_garray_append1(a.port_values, &v, sizeof v); vp_garray_append1(list, &a, sizeof a); }
	guint before = list->len;
	bool err = bidib_config_parse_dcc_aspect(&g_parser, list);
	VP_COVER_LONG(!err && has); VP_COVER(err && vp_parsed == 1 && has);
	VP_LEDGER_AT_RETURN();
	if (!err) {
		__CPROVER_assert(list->len == before + 1, "C14.dcc_aspect.accepted_aspect_appended_once");
		t_bidib_dcc_aspect *n = &g_array_index(list, t_bidib_dcc_aspect, before);
		__CPROVER_assert(n->id != NULL && n->port_values != NULL && n->port_values->len >= 1, "C14.dcc_aspect.accepted_aspect_has_an_id_and_at_least_one_port");
	}
#elif defined(VP_H_BOARD_ACC) || defined(VP_H_DCC_ACC)
	mkboard(); VP_IN(_Bool, g_dup); unsigned type; _Bool is_point; VP_IN(_Bool, is_point);
	g_init_point = g_init_signal = g_init_periph = g_add_calls = 0;
#ifdef VP_H_BOARD_ACC
	type = is_point ? BOARD_SETUP_POINTS_BOARD_KEY : BOARD_SETUP_SIGNALS_BOARD_KEY;
	GArray *mine = is_point ? g_board.points_board : g_board.signals_board, *other = is_point ? g_board.signals_board : g_board.points_board;
	guint before = mine->len, obefore = other->len;
	bool err = bidib_config_parse_single_board_accessory(&g_parser, &g_board, (t_bidib_parser_board_setup_scalar)type);
#else
	type = is_point ? BOARD_SETUP_POINTS_DCC_KEY : BOARD_SETUP_SIGNALS_DCC_KEY;
	GArray *mine = is_point ? g_board.points_dcc : g_board.signals_dcc, *other = is_point ? g_board.signals_dcc : g_board.points_dcc;
	guint before = mine->len, obefore = other->len;
	bool err = bidib_config_parse_single_dcc_accessory(&g_parser, &g_board, (t_bidib_parser_board_setup_scalar)type);
#endif
	VP_COVER_LONG(!err && is_point && g_init_point == 1); VP_COVER_LONG(!err && !is_point); VP_COVER(err && vp_parsed == 1 && before == 1); VP_COVER_LONG(err && g_dup && g_add_calls == 1);
	VP_LEDGER_AT_RETURN();
	__CPROVER_assert(other->len == obefore, "C14.accessory.filed_only_under_its_own_kind");
	__CPROVER_assert(is_point ? g_init_signal == 0 : g_init_point == 0, "C20.accessory.initial_value_registered_in_the_list_of_its_own_kind (points are commanded as points at startup)");
	__CPROVER_assert(g_init_point + g_init_signal <= 1 && g_init_periph == 0, "C14.accessory.at_most_one_initial_value");
	if (!err) {
		__CPROVER_assert(mine->len == before + 1 && g_add_calls == 1 && !g_dup, "C14.accessory.accepted_accessory_has_one_mapping_and_one_registered_state");
	}
#ifdef VP_H_BOARD_ACC
	for (guint k = 0; k < 2; k++) if (k < mine->len) { t_bidib_board_accessory_mapping *e = &g_array_index(mine, t_bidib_board_accessory_mapping, k); __CPROVER_assert(e->aspects != NULL, "C13.accessory.every_listed_mapping_has_an_aspect_list (bidib_state_free_single_board reads its length)"); }
#else
	for (guint k = 0; k < 2; k++) if (k < mine->len) { t_bidib_dcc_accessory_mapping *e = &g_array_index(mine, t_bidib_dcc_accessory_mapping, k); __CPROVER_assert(e->aspects != NULL, "C13.accessory.every_listed_mapping_has_an_aspect_list (bidib_state_free_single_board reads its length)"); }
#endif
	vp_release_all();
#elif defined(VP_H_PERIPHERAL) || defined(VP_H_SEGMENT) || defined(VP_H_REVERSER)
	mkboard(); VP_IN(_Bool, g_dup); g_init_point = g_init_signal = g_init_periph = g_add_calls = 0;
#if defined(VP_H_PERIPHERAL)
	GArray *mine = g_board.peripherals; guint before = mine->len;
	bool err = bidib_config_parse_single_board_peripheral(&g_parser, &g_board);
	for (guint k = 0; k < 2; k++) if (k < mine->len) { t_bidib_peripheral_mapping *e = &g_array_index(mine, t_bidib_peripheral_mapping, k); __CPROVER_assert(e->aspects != NULL, "C13.peripheral.every_listed_mapping_has_an_aspect_list (bidib_state_free_single_board reads its length)"); }
	__CPROVER_assert(g_init_point == 0 && g_init_signal == 0 && g_init_periph <= 1, "C20.peripheral.initial_value_registered_as_a_peripheral_value_at_most_once");
#elif defined(VP_H_SEGMENT)
	GArray *mine = g_board.segments; guint before = mine->len;
	bool err = bidib_config_parse_single_board_segment(&g_parser, &g_board);
#else
	GArray *mine = g_board.reversers; guint before = mine->len;
	bool err = bidib_config_parse_single_board_reverser(&g_parser, &g_board);
#endif
	VP_COVER_LONG(!err); VP_COVER(err && vp_parsed == 1 && before == 1); VP_COVER_LONG(err && g_dup && g_add_calls == 1);
	VP_LEDGER_AT_RETURN();
	if (!err) __CPROVER_assert(mine->len == before + 1 && g_add_calls == 1 && !g_dup, "C14.section.accepted_entry_has_one_mapping_and_one_registered_state");
	vp_release_all();
#elif defined(VP_H_BOARD_SETUP)
	mkboard(); VP_IN(_Bool, g_board_known); g_lookups = 0;
	bool err = bidib_config_parse_single_board_setup(&g_parser);
	VP_COVER_LONG(!err && vp_nested_calls >= 1); VP_COVER(err && !g_board_known); VP_COVER(err && vp_parsed == 1);
	VP_LEDGER_AT_RETURN();
	if (!g_board_known && g_lookups > 0) __CPROVER_assert(err && vp_nested_calls == 0, "C14.board_setup.board_missing_from_the_board_file_is_rejected_before_any_section_is_parsed");
#endif
}
