/* Contract stubs of the nested parser functions (compiled as a separate TU and linked after the bodies of all functions
 * but the one under proof were removed; the stub of the function under proof is compiled out by -DVP_T_<name>).
 * Contract: consumes events of its own (not part of the caller's ledger), may fail, and - as the real functions do on
 * success and on failure - leaves one more element in the list it was given (with valid members). */
#include "vp_common.h"
#include <glib.h>
#include <yaml.h>
#include "src/state/bidib_state_intern.h"
GArray *g_array_sized_new(gboolean z, gboolean c, guint element_size, guint reserved_size);
GArray *vp_garray_append1(GArray *array, const void *src, size_t n);
GString *g_string_new(const gchar *init);
unsigned vp_nested_calls;
/* elements appended by the stubs share statically allocated members (no allocation per call: the callers never free list elements) */
static char vp_n_str[2]; static GString vp_n_id;
static void vp_n_init(void) { vp_n_str[0] = 'n'; vp_n_str[1] = 0; vp_n_id.str = vp_n_str; vp_n_id.len = 1; vp_n_id.allocated_len = 2; }   /* statics start arbitrary (--nondet-static) */
typedef struct { gchar *data; guint len; guint elt_size; guint cap; } vp_garray_s;
static t_bidib_dcc_aspect_port_value vp_n_pv[1]; static vp_garray_s vp_n_ports;
#ifndef VP_T_bidib_config_parse_aspect
bool bidib_config_parse_aspect(yaml_parser_t *parser, GArray *aspect_list) {
	__CPROVER_assert(aspect_list != NULL, "C13.nested.aspect_list_exists_when_aspects_are_parsed");
	vp_nested_calls++; vp_n_init(); t_bidib_aspect a;
#ifdef VP_LEAKCHECK
	a.id = g_string_new("n");      /* heap: the release epilogue of the leak-checking units frees list elements */
#else
	a.id = &vp_n_id;
#endif
	vp_garray_append1(aspect_list, &a, sizeof a); _Bool e; return e;
}
#endif
#ifndef VP_T_bidib_config_parse_dcc_aspect_port
bool bidib_config_parse_dcc_aspect_port(yaml_parser_t *parser, GArray *port_values) {
	__CPROVER_assert(port_values != NULL, "C13.nested.port_list_exists_when_ports_are_parsed");
	vp_nested_calls++; t_bidib_dcc_aspect_port_value v; vp_garray_append1(port_values, &v, sizeof v); _Bool e; return e;
}
#endif
#ifndef VP_T_bidib_config_parse_dcc_aspect
bool bidib_config_parse_dcc_aspect(yaml_parser_t *parser, GArray *aspect_list) {
	__CPROVER_assert(aspect_list != NULL, "C13.nested.aspect_list_exists_when_aspects_are_parsed");
	vp_nested_calls++; vp_n_init(); vp_n_ports.data = (gchar *)vp_n_pv; vp_n_ports.len = 1; vp_n_ports.elt_size = sizeof vp_n_pv[0]; vp_n_ports.cap = 1; t_bidib_dcc_aspect a;
#ifdef VP_LEAKCHECK
	a.id = g_string_new("n"); a.port_values = g_array_sized_new(FALSE, FALSE, sizeof(t_bidib_dcc_aspect_port_value), 2);
#else
	a.id = &vp_n_id; a.port_values = (GArray *)&vp_n_ports;
#endif
	vp_garray_append1(aspect_list, &a, sizeof a); _Bool e; return e;
}
#endif

/* the per-section functions called by bidib_config_parse_single_board_setup: may fail; the board they are given must exist */
unsigned vp_last_section_type;
#ifndef VP_T_bidib_config_parse_single_board_accessory
bool bidib_config_parse_single_board_accessory(yaml_parser_t *parser, t_bidib_board *board, unsigned type) {
	__CPROVER_assert(board != NULL, "C13.nested.section_parsed_for_an_existing_board"); vp_nested_calls++; vp_last_section_type = type; _Bool e; return e; }
#endif
#ifndef VP_T_bidib_config_parse_single_dcc_accessory
bool bidib_config_parse_single_dcc_accessory(yaml_parser_t *parser, t_bidib_board *board, unsigned type) {
	__CPROVER_assert(board != NULL, "C13.nested.section_parsed_for_an_existing_board"); vp_nested_calls++; vp_last_section_type = type; _Bool e; return e; }
#endif
#ifndef VP_T_bidib_config_parse_single_board_peripheral
bool bidib_config_parse_single_board_peripheral(yaml_parser_t *parser, t_bidib_board *board) {
	__CPROVER_assert(board != NULL, "C13.nested.section_parsed_for_an_existing_board"); vp_nested_calls++; _Bool e; return e; }
#endif
#ifndef VP_T_bidib_config_parse_single_board_segment
bool bidib_config_parse_single_board_segment(yaml_parser_t *parser, t_bidib_board *board) {
	__CPROVER_assert(board != NULL, "C13.nested.section_parsed_for_an_existing_board"); vp_nested_calls++; _Bool e; return e; }
#endif
#ifndef VP_T_bidib_config_parse_single_board_reverser
bool bidib_config_parse_single_board_reverser(yaml_parser_t *parser, t_bidib_board *board) {
	__CPROVER_assert(board != NULL, "C13.nested.section_parsed_for_an_existing_board"); vp_nested_calls++; _Bool e; return e; }
#endif

#ifndef VP_T_bidib_config_parse_single_train_calibration
bool bidib_config_parse_single_train_calibration(yaml_parser_t *parser, t_bidib_train *train) {
	__CPROVER_assert(train != NULL, "C13.nested.train_exists"); vp_nested_calls++; _Bool e;
	train->calibration = e ? NULL : g_array_sized_new(FALSE, FALSE, sizeof(int), 9); return e; }
#endif
#ifndef VP_T_bidib_config_parse_single_train_peripheral
bool bidib_config_parse_single_train_peripheral(yaml_parser_t *parser, t_bidib_train *train, t_bidib_train_state_intern *train_state) {
	__CPROVER_assert(train != NULL && train->peripherals != NULL && train_state != NULL && train_state->peripherals != NULL && train_state->id != NULL, "C13.nested.train_lists_exist_when_functions_are_parsed");
	vp_nested_calls++; t_bidib_train_peripheral_mapping m; m.id = g_string_new("n"); /* heap: the caller releases the list on error */ vp_garray_append1(train->peripherals, &m, sizeof m); _Bool e; return e; }
#endif
