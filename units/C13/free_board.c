/* C13 ("when it returns 1 the library ... has released its memory" - without crashing): bidib_state_free_single_board and
 * bidib_state_free_single_train for a record with 0..1 element per list.  Precondition of bidib_state_free_single_board
 * (checked at its call site in C13.parse_board): every list exists - the function dereferences them unconditionally.
 * bidib_state_free_single_train guards every member itself, so it is also run on the all-NULL record.
 * Obligations: CBMC's pointer checks (NULL / dangling dereference, double free, free of a non-heap pointer). */
#include "vp_common.h"
#include "vp_syslog.h"
#include <pthread.h>
#define pthread_mutex_lock(m) 0
#define pthread_mutex_unlock(m) 0
#define pthread_rwlock_rdlock(m) 0
#define pthread_rwlock_wrlock(m) 0
#define pthread_rwlock_unlock(m) 0
#include <glib.h>
GArray *vp_garray_append1(GArray *array, const void *src, size_t n);
#include "src/state/bidib_state_free.c"
#include "vp_glib.h"
gpointer vp_q_fresh(GQueue *q) { return NULL; }
void vp_q_pushed(GQueue *q, gpointer e) {}
void vp_q_popped(GQueue *q, gpointer e) {}
static GArray *arr(guint elt) { return g_array_sized_new(FALSE, FALSE, elt, 2); }
void vp_harness(void) {
	_Bool built; VP_IN(_Bool, built); _Bool one; VP_IN(_Bool, one);
#ifdef VP_H_TRAIN
	t_bidib_train t = {NULL, {0, 0, 0}, 0, NULL, NULL};
	if (built) { t.id = g_string_new("t"); _Bool cal; t.calibration = cal ? arr(sizeof(int)) : NULL; t.peripherals = arr(sizeof(t_bidib_train_peripheral_mapping));
		if (one) { t_bidib_train_peripheral_mapping m; _Bool hasid; m.id = hasid ? g_string_new("p") : NULL; vp_garray_append1(t.peripherals, &m, sizeof m); } }
	bidib_state_free_single_train(t);
	VP_COVER(built && one); VP_COVER(!built);
#else
	t_bidib_board b = {NULL, {0, 0, 0, 0, 0, 0, 0}, false, {0, 0, 0}, false, NULL, NULL, NULL, NULL, NULL, NULL, NULL, NULL};
	if (built) {
		b.id = g_string_new("B"); b.features = arr(sizeof(t_bidib_board_feature));
		b.points_board = arr(sizeof(t_bidib_board_accessory_mapping)); b.signals_board = arr(sizeof(t_bidib_board_accessory_mapping));
		b.points_dcc = arr(sizeof(t_bidib_dcc_accessory_mapping)); b.signals_dcc = arr(sizeof(t_bidib_dcc_accessory_mapping));
		b.peripherals = arr(sizeof(t_bidib_peripheral_mapping)); b.segments = arr(sizeof(t_bidib_segment_mapping)); b.reversers = arr(sizeof(t_bidib_reverser_mapping));
		if (one) {
			/* one element per list as the (repaired) parsers leave them: id and aspect list present, aspects possibly half-built */
			t_bidib_board_accessory_mapping m; m.id = g_string_new("p"); m.aspects = arr(sizeof(t_bidib_aspect)); _Bool ha; if (ha) { t_bidib_aspect a; a.id = g_string_new("a"); vp_garray_append1(m.aspects, &a, sizeof a); }
			vp_garray_append1(b.points_board, &m, sizeof m);
			t_bidib_dcc_accessory_mapping d; d.id = g_string_new("q"); d.aspects = arr(sizeof(t_bidib_dcc_aspect)); _Bool hd; if (hd) { t_bidib_dcc_aspect a; a.id = g_string_new("a"); a.port_values = arr(sizeof(t_bidib_dcc_aspect_port_value)); vp_garray_append1(d.aspects, &a, sizeof a); }
			vp_garray_append1(b.signals_dcc, &d, sizeof d);
			t_bidib_peripheral_mapping pm; pm.id = g_string_new("r"); pm.aspects = arr(sizeof(t_bidib_aspect)); vp_garray_append1(b.peripherals, &pm, sizeof pm);
			t_bidib_segment_mapping sm; sm.id = g_string_new("s"); vp_garray_append1(b.segments, &sm, sizeof sm);
			t_bidib_reverser_mapping rm; rm.id = g_string_new("v"); _Bool hc; rm.cv = hc ? g_string_new("7") : NULL; vp_garray_append1(b.reversers, &rm, sizeof rm);
		}
	}
	__CPROVER_assume(built);      /* precondition (see above) */
	bidib_state_free_single_board(b);
	VP_COVER(built && one); VP_COVER(built && !one);
#endif
}
