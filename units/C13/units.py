from vpkg.core import Unit
from vpkg import csrc
_t = csrc.Tree()
_tr = [f.name for f in _t.by_file[csrc.REPO + "/src/parser/bidib_config_parser_track.c"]]
def _pool(*xs):
    return "VP_POOL=" + ",".join('"%s"' % x for x in xs)
import re
HARNESS_STRINGS = ["p", "a", "n", "B", "7", "t"]
def _closed_world(fns, pool, k=3):
    """every string that can occur in the unit is identified by its first 3 characters (or is equal)"""
    lits = set()
    for fn in fns:
        f = _t.get(fn)
        raw = open(f.file, errors="replace").read()
        # body with literals intact: re-read the text span of the function
        body = raw[f.body_off:f.body_off + len(f.body)]
        for m in re.finditer(r'strcmp\s*\([^;]*?"((?:[^"\\]|\\.)*)"\s*\)', body):
            lits.add(m.group(1))
    allw = set(pool) | lits | set(HARNESS_STRINGS)
    seen = {}
    for w in allw:
        kk = w[:k]
        if kk in seen and seen[kk] != w:
            raise csrc.ExtractError("closed-world string abstraction: '%s' and '%s' share the prefix '%s'" % (w, seen[kk], kk))
        seen[kk] = w
def _u(name, src, allfns, define, fns, pool, nev, quick=0, **kw):
    """two variants: quick tier with a short stream (every early-error path), thorough tier with a stream long enough to accept a record"""
    res = []
    if quick:
        res.append(_u1(name + "_short", src, allfns, define, fns, pool, quick, tier="quick", covers=1, short=True, **dict(kw)))
    script = kw.pop("script", None)
    if script:
        S = {"[": 7, "]": 8, "{": 9, "}": 10}   # yaml_event_type_t: sequence start/end, mapping start/end; scalar = 6
        ent = []
        for tok in script.split():
            if tok in S:
                ent += [S[tok], 255]
            elif tok == "?":
                ent += [6, 255]          # value scalar: arbitrary pool string
            else:
                ent += [6, pool.index(tok)]   # key scalar: this pool string
        res.append(_u1(name + "_accept", src, allfns, define, fns, pool, len(ent) // 2, tier="quick".join(map(str, ent)), **dict(kw)))
    res.append(_u1(name, src, allfns, define, fns, pool, nev, tier="thorough" if quick else "quick", **dict(kw)))
    return res
def _u1(name, src, allfns, define, fns, pool, nev, unwind=0, timeout=1800, elt=16, keep=(), tier="quick", covers=2, prefix=3, short=False, script=None, cap=4, leak=False, **kw):
    _closed_world(fns, pool, prefix)
    unwind = unwind or max(max(len(x) for x in pool) + 3, prefix + 2)
    def mk(n_ev, leak_on=False):
        return dict(defines=[define, _pool(*pool), "VP_MAX_EVENTS=%d" % n_ev, "VP_GLIB_FIXED_CAP=%d" % cap, "VP_STR_PREFIX=%d" % prefix] + (["VP_SHORT"] if short else []) + (["VP_SCRIPT=" + script] if script else []) + (["VP_LEAKCHECK"] if leak_on else []) + ["VP_T_" + f for f in fns],
                    bound=(("event streams whose event types and key scalars follow the well-formed sequence of one record (%d events) with arbitrary value scalars, a parse failure possible at every point;" if script else "event streams of at most %d events of any type (a parse failure possible at every point);") % n_ev) +
                          " scalar values from a pool of %d strings (every key the function compares against + sample values); lists hold at most %d elements" % (len(pool), cap),
                    extra_flags=["--nondet-static", "--unwind", str(unwind)] + (["--memory-leak-check"] if leak_on else []) + ["--unwindset", "vp_bytes.0:%d,%s.0:%d,%s.1:%d" % (elt + 1, fns[0], n_ev + 2, fns[0], n_ev + 2)])
    deep = dict(mk(nev if leak == "deep" else nev + 3, bool(leak)), timeout=6000) if (tier == "quick" and not script) else None   # heavy units: same stream length + leak check
    return Unit(name="C13.parse_" + name, src=src, functions=fns, props=kw.pop("props", ["C13", "C14"]), no_dfcc=True, kind="bounded",
                remove_bodies=[f for f in allfns if f not in fns and f not in keep], stub_srcs=["units/C13/parser_stubs.c"], covers=covers, min_obligations=10, timeout=timeout, tier=tier, deep=deep,
                stubbed_contracts=["libyaml event API (units/C13/parser_model.h)", "strtol (stubs/vp_strtol.h)", "GLib GString/GArray (stubs/vp_glib.h)"], **mk(nev, leak is True), **kw)
_TRK = "units/C13/parser_track.c"
_TRN = "units/C13/parser_train.c"
_BRD = "units/C13/parser_board.c"
_tb = [f.name for f in _t.by_file[csrc.REPO + "/src/parser/bidib_config_parser_board.c"]]
_tn = [f.name for f in _t.by_file[csrc.REPO + "/src/parser/bidib_config_parser_train.c"]]
UNITS = sum([
    _u("aspect", _TRK, _tr, "VP_H_ASPECT", ["bidib_config_parse_aspect"], ["id", "value", "a", "b", "0x01", "2", "zz"], 6),
    _u("dcc_aspect_port", _TRK, _tr, "VP_H_DCC_PORT", ["bidib_config_parse_dcc_aspect_port"], ["port", "value", "0", "1", "0x02", "zz"], 6, elt=2),
    _u("dcc_aspect", _TRK, _tr, "VP_H_DCC_ASPECT", ["bidib_config_parse_dcc_aspect", "dcc_aspects_equal"], ["id", "ports", "a", "b"], 8),
    _u("board_accessory", _TRK, _tr, "VP_H_BOARD_ACC", ["bidib_config_parse_single_board_accessory", "initial_value_valid"], ["id", "number", "aspects", "initial", "n", "q", "0x01", "zz"], 12, elt=24, props=["C13", "C14", "C20"], leak="deep"),
    _u("dcc_accessory", _TRK, _tr, "VP_H_DCC_ACC", ["bidib_config_parse_single_dcc_accessory", "initial_value_valid"], ["id", "dcc-address", "extended", "aspects", "initial", "n", "q", "0x01", "0x1234", "zz"], 14, elt=32, props=["C13", "C14", "C20"]),   # leak-check variant exceeds the 16 GB memory limit: not built
    _u("peripheral", _TRK, _tr, "VP_H_PERIPHERAL", ["bidib_config_parse_single_board_peripheral", "initial_value_valid"], ["id", "number", "port", "aspects", "initial", "n", "q", "0x01", "0x1234", "zz"], 14, elt=32, props=["C13", "C14", "C20"], leak="deep"),
    _u("segment", _TRK, _tr, "VP_H_SEGMENT", ["bidib_config_parse_single_board_segment"], ["id", "address", "length", "q", "0x01", "zz"], 8, leak=True),
    _u("reverser", _TRK, _tr, "VP_H_REVERSER", ["bidib_config_parse_single_board_reverser"], ["id", "cv", "q", "7", "zz"], 6, leak=True),
    _u("board_setup", _TRK, _tr, "VP_H_BOARD_SETUP", ["bidib_config_parse_single_board_setup"], ["id", "points-board", "points-dcc", "signals-board", "signals-dcc", "peripherals", "segments", "reversers", "B", "zz"], 9, prefix=9),
    _u("train_calibration", _TRN, _tn, "VP_H_CALIBRATION", ["bidib_config_parse_single_train_calibration"], ["5", "126", "127", "zz"], 11, elt=4, cap=10, unwind=11),
    _u("train_function", _TRN, _tn, "VP_H_TRAIN_PERIPH", ["bidib_config_parse_single_train_peripheral"], ["id", "bit", "initial", "p", "q", "r", "1", "31", "32", "zz"], 8, props=["C13", "C14", "C20"]),
    _u("train", _TRN, _tn, "VP_H_TRAIN", ["bidib_config_parse_single_train"], ["id", "dcc-address", "dcc-speed-steps", "calibration", "peripherals", "r", "0x1234", "28", "zz"], 14, elt=16, prefix=5),
    _u("board", _BRD, _tb, "VP_H_BOARD", ["bidib_config_parse_single_board_features"], ["id", "unique-id", "features", "number", "value", "B", "zz"], 20, elt=2, prefix=3, timeout=3000, props=["C13", "C14", "C19"]),
    _u("scalar_then_section", "units/C13/parser_top.c", [f.name for f in _t.by_file[csrc.REPO + "/src/parser/bidib_config_parser.c"]], "VP_H_SECTION", ["bidib_config_parse_scalar_then_section"], ["boards", "trains", "zz"], 9, prefix=3),
], []) + [
    Unit(name="C13.config_file_" + n, src="units/C13/parser_top.c", defines=["VP_H_TOP", 'VP_PARSER_SRC="src/parser/bidib_config_parser_%s.c"' % n, "VP_TOP_FN=bidib_config_parse_%s_config" % n, 'VP_POOL="x"', "VP_MAX_EVENTS=1"],
         functions=["bidib_config_parse_%s_config" % n], props=["C13"], no_dfcc=True,
         remove_bodies=[f.name for f in _t.by_file[csrc.REPO + "/src/parser/bidib_config_parser_%s.c" % n] if f.name != "bidib_config_parse_%s_config" % n],
         extra_flags=["--nondet-static", "--unwind", "4"], covers=3, min_obligations=6, timeout=300,
         stubbed_contracts=["bidib_config_init_parser (may fail; on success opens the file and initialises the parser)", "bidib_config_parse_scalar_then_section (may fail)", "yaml_parser_delete / fclose (resource ledger)"],
         note="loop-free: complete")
    for n in ("board", "track", "train")
] + [
    Unit(name="C13.free_single_" + n, src="units/C13/free_board.c", defines=d + ["VP_GLIB_FIXED_CAP=2"], functions=[fn], props=["C13"], no_dfcc=True, kind="bounded",
         bound="record with 0..1 element per list; loops unwound completely",
         remove_bodies=[f.name for f in _t.by_file[csrc.REPO + "/src/state/bidib_state_free.c"] if f.name != fn], extra_flags=["--nondet-static", "--unwind", "4", "--unwindset", "vp_bytes.0:41"],
         covers=2, min_obligations=10, timeout=600)
    for n, d, fn in [("board", [], "bidib_state_free_single_board"), ("train", ["VP_H_TRAIN"], "bidib_state_free_single_train")]
]
