/* C06 / C19 / C15 / C04 / C12: bidib_handle_received_message for all 256 type codes, both modes, arbitrary message content.
 * The message is what bidib_split_packet hands over: a heap object of exactly message[0]+1 bytes whose address stack is
 * terminated within 4 bytes and followed by sequence number and type.
 * Every callee is replaced by a contract stub that records its call in ghost state (units/C06/dispatch_stubs.c, generated
 * from the real prototypes); the file-local helpers become linkable because the wrapper drops the `static` keyword
 * (no function-local statics in this file).  The four logging helpers and bidib_first_data_byte_index keep their real body.
 * VP_LONG_ENOUGH: precondition "the payload is as long as its type requires" (C06/C19/C15 clauses);
 * without it: memory safety for arbitrarily short messages (C12). */
#include "vp_common.h"
#include "vp_syslog.h"
#include <pthread.h>
#define pthread_mutex_lock(m) 0
#define pthread_mutex_unlock(m) 0
#define pthread_rwlock_rdlock(m) 0
#define pthread_rwlock_wrlock(m) 0
#define pthread_rwlock_unlock(m) 0
void vp_free(void *p);
#define free(p) vp_free(p)
#include <glib.h>
#include <yaml.h>
#include "src/transmission/bidib_transmission_intern.h"
#include "src/state/bidib_state_intern.h"
#include "src/state/bidib_state_getter_intern.h"
#include "src/state/bidib_state_setter_intern.h"
void vp_hex_contract(const uint8_t *const message, char *dest);
#define bidib_build_message_hex_string vp_hex_contract   /* calls of the real code go to the contract below */
#define static
#include "src/transmission/bidib_transmission_receive.c"
#undef static
#undef bidib_build_message_hex_string
#undef free
#include "units/C06/dispatch_ghost.h"
#include "vp_glib.h"
gpointer vp_q_fresh(GQueue *q) { return NULL; }
void vp_q_pushed(GQueue *q, gpointer e) {}
void vp_q_popped(GQueue *q, gpointer e) {}

/* contract of bidib_build_message_hex_string (util.c): writes 5 characters per message byte ("0x%02x" + separator / NUL) */
void vp_hex_contract(const uint8_t *const message, char *dest) {
	__CPROVER_assert(__CPROVER_w_ok(dest, ((size_t)message[0] + 1) * 5), "C12.dispatch.hex_string_buffer_holds_5_chars_per_message_byte");
}

void vp_free(void *p) { if (p == (void *)G.message) G.freed++; free(p); }

enum { D_STATE, D_MSGQ, D_ERRQ, D_INTQ, D_EITHER_STATE_OR_ERRQ };

/* README "Message handling" + the property statement; payload lengths from the BiDiB message reference */
static int spec_dest(uint8_t type, const uint8_t *m, int di, unsigned *need) {
	*need = 0;
	switch (type) {
	case MSG_PKT_CAPACITY: *need = 1; return D_STATE;
	case MSG_NODE_LOST: case MSG_NODE_NEW: *need = 9; return D_STATE;
	case MSG_STALL: *need = 1; return D_STATE;
	case MSG_CS_STATE: *need = 1; return D_STATE;
	case MSG_CS_DRIVE_ACK: case MSG_CS_ACCESSORY_ACK: case MSG_CS_ACCESSORY_MANUAL: *need = 3; return D_STATE;
	case MSG_CS_DRIVE_MANUAL: *need = 9; return D_STATE;
	case MSG_LC_STAT: case MSG_LC_WAIT: *need = 3; return D_STATE;
	case MSG_BM_OCC: case MSG_BM_FREE: *need = 1; return D_STATE;
	case MSG_BM_MULTIPLE: *need = 2; return D_STATE;
	case MSG_BM_CONFIDENCE: *need = 3; return D_STATE;
	case MSG_BM_ADDRESS: *need = 1; return D_STATE;
	case MSG_BM_CURRENT: *need = 2; return D_STATE;
	case MSG_BM_SPEED: *need = 4; return D_STATE;
	case MSG_BM_DYN_STATE: *need = 5; return D_STATE;
	case MSG_BOOST_DIAGNOSTIC: *need = 2; return D_STATE;   /* at least one (key, value) pair */
	case MSG_ACCESSORY_STATE: case MSG_ACCESSORY_NOTIFY: *need = 5;
		return m[di + 3] == 0x80 ? D_ERRQ : (m[di + 3] & 0x80) ? D_EITHER_STATE_OR_ERRQ : D_STATE;
	case MSG_BOOST_STAT: *need = 1; {
		uint8_t s = m[di];
		_Bool on = s == 0x80 || s == 0x81 || s == 0x82 || s == 0x84;
		_Bool off = s == 0x00 || s == 0x03 || s == 0x04 || s == 0x05 || s == 0x06;
		return (on || off) ? D_STATE : D_ERRQ; }
	case MSG_CS_DRIVE_EVENT: *need = 1; return m[di] == 1 ? D_ERRQ : D_STATE;
	case MSG_SYS_MAGIC: case MSG_NODETAB_COUNT: case MSG_NODETAB: case MSG_FEATURE_COUNT: case MSG_FEATURE: return D_INTQ;
	case MSG_SYS_ERROR: *need = 1; return D_ERRQ;           /* error code; the parameter byte is optional (several codes have none) */
	case MSG_NODE_NA: case MSG_FEATURE_NA: case MSG_LC_NA: return D_ERRQ;
	case MSG_BM_POSITION: *need = 3; return D_MSGQ;
	case MSG_VENDOR: *need = 2; return D_MSGQ;              /* the two length bytes */
	default: return D_MSGQ;   /* incl. MSG_VENDOR and every type the README lists under "Message queue", and unknown types */
	}
}

void vp_harness(void) {
	uint8_t in_len; VP_IN(uint8_t, in_len);
	uint8_t in_type; VP_IN(uint8_t, in_type);
	_Bool in_debug; VP_IN(_Bool, in_debug);
	VP_IN(_Bool, G.board_known); VP_IN(_Bool, G.secack);
	uint8_t *m = malloc((size_t)in_len + 1);
	__CPROVER_assume(m != NULL);
	m[0] = in_len;
	unsigned p = (in_len >= 3 && m[1] == 0) ? 1 : (in_len >= 4 && m[2] == 0) ? 2 : (in_len >= 5 && m[3] == 0) ? 3 : (in_len >= 6 && m[4] == 0) ? 4 : 0;
	__CPROVER_assume(p != 0);                                   /* split_packet's validation */
	__CPROVER_assume(m[p + 2] == in_type);
	uint8_t addr[4] = {p > 1 ? m[1] : 0, p > 2 ? m[2] : 0, p > 3 ? m[3] : 0, 0};
	int di = (int)p + 3;
	unsigned need = 0; int want = D_MSGQ;
#ifdef VP_LONG_ENOUGH
	{ uint8_t z[16] = {0}; (void)spec_dest(in_type, z, 0, &need); }   /* payload length the type requires */
	__CPROVER_assume((unsigned)di + need <= (unsigned)in_len + 1);
	if (in_type == MSG_BM_MULTIPLE) __CPROVER_assume((unsigned)di + 2 + ((unsigned)m[di + 1] + 7) / 8 <= (unsigned)in_len + 1);
	want = spec_dest(in_type, m, di, &need);
#endif
	bidib_lowlevel_debug_mode = in_debug;
	G.message = m; G.q_msg = G.q_err = G.q_int = G.freed = 0; G.events = 0;
	G.mir_occ = G.mir_free = G.mir_multi = G.mir_pos = G.flushes = 0; G.node_new = G.node_lost = G.acks = 0; G.stall_calls = 0; G.cap_calls = 0;
	G.occ_calls = G.cur_calls = G.acc_calls = G.setter_calls = G.other_sends = 0;
	uint8_t m_di0 = 0, m_di1 = 0, m_di2 = 0, m_last = m[in_len];
#ifdef VP_LONG_ENOUGH
	if (need >= 1) m_di0 = m[di]; if (need >= 2) m_di1 = m[di + 1]; if (need >= 3) m_di2 = m[di + 2];
	uint8_t uid[7]; if (need >= 9) for (int k = 0; k < 7; k++) uid[k] = m[di + 2 + k];
#endif

	bidib_handle_received_message(m, in_type, addr, 5, 9);

	VP_COVER(G.q_err == 1);
	VP_COVER(G.q_int == 1);
	VP_COVER(G.freed == 1);
	VP_COVER(G.mir_multi == 1);
#ifdef VP_LONG_ENOUGH
	unsigned dests = G.q_msg + G.q_err + G.q_int + G.freed;
	__CPROVER_assert(dests == 1, "C06.dispatch.exactly_one_destination (state tracking | message queue | error queue | internal queue)");
	if (in_debug && in_type != MSG_STALL) {
		__CPROVER_assert(G.q_msg == 1, "C06.dispatch.debug_mode_everything_but_stall_to_message_queue");
		__CPROVER_assert(G.setter_calls + G.occ_calls + G.cur_calls + G.acc_calls + G.node_new + G.node_lost + G.cap_calls + G.stall_calls == 0 &&
		                 G.mir_occ + G.mir_free + G.mir_multi + G.mir_pos + G.acks + G.other_sends == 0, "C06.dispatch.debug_mode_no_state_tracking_no_replies");
	} else {
		if (want == D_STATE) __CPROVER_assert(G.freed == 1, "C06.dispatch.destination_matches_table: consumed by state tracking");
		if (want == D_MSGQ) __CPROVER_assert(G.q_msg == 1, "C06.dispatch.destination_matches_table: message queue");
		if (want == D_ERRQ) __CPROVER_assert(G.q_err == 1, "C06.dispatch.destination_matches_table: error queue");
		if (want == D_INTQ) __CPROVER_assert(G.q_int == 1, "C06.dispatch.destination_matches_table: internal queue");
		if (want == D_EITHER_STATE_OR_ERRQ) __CPROVER_assert(G.freed + G.q_err == 1, "C06.dispatch.destination_matches_table: state tracking or error queue");
		/* C04 */
		if (in_type == MSG_STALL) __CPROVER_assert(G.stall_calls == 1 && G.stall_val == m_last, "C04.dispatch.stall_notice_updates_the_node_with_the_last_byte");
		else __CPROVER_assert(G.stall_calls == 0, "C04.dispatch.only_stall_notices_change_stall_state");
		/* C19 */
		_Bool sec = G.board_known && G.secack;
		unsigned mirrors = G.mir_occ + G.mir_free + G.mir_multi + G.mir_pos;
		_Bool report = in_type == MSG_BM_OCC || in_type == MSG_BM_FREE || in_type == MSG_BM_MULTIPLE || in_type == MSG_BM_POSITION;
		__CPROVER_assert(mirrors == ((report && sec) ? 1u : 0u), "C19.dispatch.exactly_one_mirror_iff_report_of_a_secack_board");
		if (report && sec) {
			__CPROVER_assert((in_type == MSG_BM_OCC) == (G.mir_occ == 1) && (in_type == MSG_BM_FREE) == (G.mir_free == 1) &&
			                 (in_type == MSG_BM_MULTIPLE) == (G.mir_multi == 1) && (in_type == MSG_BM_POSITION) == (G.mir_pos == 1), "C19.dispatch.mirror_kind_matches_report");
			__CPROVER_assert(G.mir_a0 == addr[0] && G.mir_a1 == addr[1] && G.mir_a2 == addr[2], "C19.dispatch.mirror_to_the_reporting_board");
			__CPROVER_assert(G.mir_b0 == m_di0, "C19.dispatch.mirror_carries_the_reported_detector_number");
			if (in_type == MSG_BM_MULTIPLE) __CPROVER_assert(G.mir_b1 == m_di1 && G.mir_ptr == m + di + 2, "C19.dispatch.mirror_carries_size_and_bitmap");
			if (in_type == MSG_BM_POSITION) __CPROVER_assert(G.mir_b1 == m_di1 && G.mir_b2 == m_di2, "C19.dispatch.mirror_carries_the_position_bytes");
			__CPROVER_assert(G.flushes == 1 && G.flush_event > G.mir_event, "C19.dispatch.mirror_flushed_at_once");
		}
		/* C15 */
		if (in_type == MSG_NODE_NEW || in_type == MSG_NODE_LOST) {
			__CPROVER_assert((in_type == MSG_NODE_NEW ? G.node_new : G.node_lost) == 1 && G.node_new + G.node_lost == 1, "C15.dispatch.node_table_updated_once");
			__CPROVER_assert(G.uid[0] == uid[0] && G.uid[1] == uid[1] && G.uid[2] == uid[2] && G.uid[3] == uid[3] && G.uid[4] == uid[4] && G.uid[5] == uid[5] && G.uid[6] == uid[6],
			                 "C15.dispatch.unique_id_from_payload_bytes_2_to_8");
			if (in_type == MSG_NODE_NEW) __CPROVER_assert(G.nn_local == m_di1 && G.nn_a0 == addr[0] && G.nn_a1 == addr[1] && G.nn_a2 == addr[2], "C15.dispatch.new_node_at_interface_address_plus_local_address");
			__CPROVER_assert(G.acks == 1 && G.ack_ver == m_di0 && G.ack_a0 == addr[0] && G.ack_a1 == addr[1] && G.ack_a2 == addr[2], "C15.dispatch.acknowledged_to_sender_with_announced_version");
			__CPROVER_assert(G.ack_event > G.node_event && G.flushes == 1 && G.flush_event > G.ack_event, "C15.dispatch.ack_after_update_and_flushed");
		} else __CPROVER_assert(G.node_new + G.node_lost + G.acks == 0, "C15.dispatch.only_node_notices_touch_the_node_table");
		/* C07 argument spot checks + C01 */
		if (in_type == MSG_BM_OCC || in_type == MSG_BM_FREE) __CPROVER_assert(G.occ_calls == 1 && G.occ_num == m_di0 && G.occ_val == (in_type == MSG_BM_OCC), "C07.dispatch.occupancy_report_args_from_offsets");
		if (in_type == MSG_BM_CURRENT) __CPROVER_assert(G.cur_calls == 1 && G.cur_num == m_di0 && G.cur_val == m_di1, "C07.dispatch.current_report_args_from_offsets");
		if (in_type == MSG_PKT_CAPACITY) __CPROVER_assert(G.cap_calls == 1 && G.cap_val == m_di0, "C01.dispatch.announced_capacity_applied");
	}
#endif
}
