/* C06 ("readers racing the receiver"): every operation on one of the three uplink FIFOs happens while the calling thread
 * holds THAT queue's mutex, and the mutex is released again on return - for every public entry point that touches a queue
 * (read x3, add x3, reset x3 with either flag, free x3).  The lock operations are the real call sites (ghost lock model of
 * stubs/vp_locks.h); the GQueue operations are guard-checking stubs (a queue of 0 or 1 entries suffices: the guard is
 * checked at every operation). */
#include "vp_common.h"
#include "vp_syslog.h"
#include "vp_locks.h"
#include "src/transmission/bidib_transmission_receive.c"

static void vp_guard(GQueue *q) {
	__CPROVER_assert(q == uplink_queue || q == uplink_error_queue || q == uplink_intern_queue, "C06.queue_guard.operation_on_one_of_the_three_queues");
	if (q == uplink_queue) __CPROVER_assert(vp_held[11] == -1, "C06.queue_guard.message_queue_touched_only_under_bidib_uplink_queue_mutex");
	if (q == uplink_error_queue) __CPROVER_assert(vp_held[12] == -1, "C06.queue_guard.error_queue_touched_only_under_bidib_uplink_error_queue_mutex");
	if (q == uplink_intern_queue) __CPROVER_assert(vp_held[13] == -1, "C06.queue_guard.intern_queue_touched_only_under_bidib_uplink_intern_queue_mutex");
}
gboolean g_queue_is_empty(GQueue *q) { vp_guard(q); return q->length == 0; }
guint g_queue_get_length(GQueue *q) { vp_guard(q); return q->length; }
gpointer g_queue_peek_head(GQueue *q) { vp_guard(q); return q->length == 0 ? NULL : (gpointer)q->head; }
void g_queue_push_tail(GQueue *q, gpointer d) { vp_guard(q); if (q->length == 0) q->head = (GList *)d; q->length++; }
gpointer g_queue_pop_head(GQueue *q) { vp_guard(q); if (q->length == 0) return NULL; gpointer e = (gpointer)q->head; q->length = 0; q->head = NULL; return e; }
void g_queue_free(GQueue *q) { vp_guard(q); free(q); }

static GQueue *mkq(void) {
	GQueue *q = malloc(sizeof *q); __CPROVER_assume(q != NULL); _Bool one; q->length = one ? 1 : 0; q->head = NULL; q->tail = NULL;
	if (one) { t_bidib_message_queue_entry *e = malloc(sizeof *e); __CPROVER_assume(e != NULL); e->message = malloc(4); __CPROVER_assume(e->message != NULL); e->message[0] = 3; q->head = (GList *)e; }
	return q;
}
void vp_harness(void) {
	for (int k = 0; k < VP_NLOCKS; k++) vp_held[k] = 0;
	uplink_queue = mkq(); uplink_error_queue = mkq(); uplink_intern_queue = mkq();
	bidib_running = bidib_running ? 1 : 0;
	unsigned which; VP_IN(unsigned, which); __CPROVER_assume(which < 12); _Bool flag; VP_IN(_Bool, flag);
	uint8_t *msg = malloc(4); __CPROVER_assume(msg != NULL); msg[0] = 3; uint8_t addr[4] = {0, 0, 0, 0}; uint8_t *r = NULL;
	switch (which) {
		case 0: r = bidib_read_message(); break;
		case 1: r = bidib_read_error_message(); break;
		case 2: r = bidib_read_intern_message(); break;
		case 3: bidib_uplink_queue_add(msg, 0, addr); break;
		case 4: bidib_uplink_error_queue_add(msg, 0, addr); break;
		case 5: bidib_uplink_intern_queue_add(msg, 0, addr); break;
		case 6: bidib_uplink_queue_reset(true); break;
		case 7: bidib_uplink_error_queue_reset(true); break;
		case 8: bidib_uplink_intern_queue_reset(true); break;
		case 9: bidib_uplink_queue_free(); break;
		case 10: bidib_uplink_error_queue_free(); break;
		default: bidib_uplink_intern_queue_free(); break;
	}
	VP_COVER(which == 1 && r != NULL); VP_COVER(which == 4); VP_COVER(which == 10 && !bidib_running); VP_COVER(which == 8);
	for (int k = 0; k < VP_NLOCKS; k++) __CPROVER_assert(vp_held[k] == 0, "C06.queue_guard.every_queue_mutex_released_on_return");
}
