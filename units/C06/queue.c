/* C06: the three bounded uplink FIFOs - bidib_message_queue_add (bound 128, drop-oldest incl. its buffer, ownership of
 * the new buffer to the queue) and bidib_read_message_from_queue (oldest first, entry freed, buffer to the caller).
 * GQueue: lazy unbounded abstraction of stubs/vp_glib.h (queue of arbitrary length with an arbitrary valid entry behind
 * every head); free(): CBMC's model, so a double free or a free of a non-heap pointer is an obligation. */
#include "vp_common.h"
#include "vp_syslog.h"
#include <pthread.h>
#define pthread_mutex_lock(m) 0
#define pthread_mutex_unlock(m) 0
#define pthread_rwlock_rdlock(m) 0
#define pthread_rwlock_wrlock(m) 0
#define pthread_rwlock_unlock(m) 0
unsigned g_freed_msgs, g_freed_entries; void *g_head_msg; void *g_head_entry; void *g_new_msg;
void vp_free2(void *p);
#define free(p) vp_free2(p)
#include "src/transmission/bidib_transmission_receive.c"
#undef free
#include "vp_glib.h"
void vp_free2(void *p) { if (p == g_head_msg) g_freed_msgs++; if (p == g_head_entry) g_freed_entries++; __CPROVER_assert(p != g_new_msg, "C06.queue.new_message_not_freed"); free(p); }

static t_bidib_message_queue_entry *fresh_entry(void) {
	t_bidib_message_queue_entry *e = malloc(sizeof *e); __CPROVER_assume(e != NULL);
	uint8_t l; e->message = malloc((size_t)l + 1); __CPROVER_assume(e->message != NULL); e->message[0] = l;
	return e;
}
gpointer vp_q_fresh(GQueue *q) { return fresh_entry(); }
void vp_q_pushed(GQueue *q, gpointer e) {}
void vp_q_popped(GQueue *q, gpointer e) {}

void vp_harness(void) {
	GQueue *q = g_queue_new();
	guint in_n; VP_IN(guint, in_n);
	__CPROVER_assume(in_n <= 128);                     /* queue invariant: at most QUEUE_SIZE entries */
	q->length = in_n;
	if (in_n > 0) q->head = (GList *)fresh_entry();
	g_head_entry = in_n > 0 ? (void *)q->head : NULL;
	g_head_msg = in_n > 0 ? (void *)((t_bidib_message_queue_entry *)q->head)->message : NULL;
	g_freed_msgs = g_freed_entries = 0;
#ifdef VP_H_ADD
	uint8_t l; uint8_t *msg = malloc((size_t)l + 1); __CPROVER_assume(msg != NULL); msg[0] = l;
	g_new_msg = msg;
	uint8_t addr[4]; uint8_t in_type; VP_IN(uint8_t, in_type);
	bidib_message_queue_add(q, msg, in_type, addr);
	VP_COVER(in_n == 128);
	VP_COVER(in_n == 0);
	__CPROVER_assert(q->length == (in_n == 128 ? 128u : in_n + 1), "C06.queue.at_most_128_entries_oldest_dropped_on_overflow");
	__CPROVER_assert(g_freed_msgs == (in_n == 128 ? 1u : 0u) && g_freed_entries == (in_n == 128 ? 1u : 0u), "C06.queue.dropped_entry_and_its_buffer_freed_exactly_once");
	if (in_n == 0) __CPROVER_assert(((t_bidib_message_queue_entry *)q->head)->message == msg && ((t_bidib_message_queue_entry *)q->head)->type == in_type, "C06.queue.entry_holds_the_received_buffer");
#else
	g_new_msg = NULL;
	uint8_t *r = bidib_read_message_from_queue(q);
	VP_COVER(r != NULL);
	VP_COVER(r == NULL);
	__CPROVER_assert((r == NULL) == (in_n == 0), "C06.queue.read_returns_null_iff_empty");
	if (in_n > 0) {
		__CPROVER_assert(r == g_head_msg, "C06.queue.read_returns_the_oldest_message");
		__CPROVER_assert(q->length == in_n - 1, "C06.queue.message_returned_at_most_once");
		__CPROVER_assert(g_freed_entries == 1 && g_freed_msgs == 0, "C06.queue.entry_freed_buffer_owned_by_caller");
		__CPROVER_assert(__CPROVER_r_ok(r, (size_t)r[0] + 1), "C06.queue.caller_gets_a_live_buffer");
	}
#endif
}
