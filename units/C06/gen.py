"""C06 / C19 / C15 / C04 / C07 / C12: dispatcher and queue units.  The contract stubs of the dispatcher's callees are generated
on every run from the callees' current prototypes in /repo (so a changed signature changes the stub, not the build)."""
import os, glob
from vpkg.core import Unit, REPO, VERIF
from vpkg import csrc

SERVES = ["C06", "C19", "C15", "C04", "C07", "C12"]

SPECIAL = {'bidib_flush': 'G.flushes++; G.flush_event = ++G.events;',
 'bidib_node_update_stall': 'G.stall_calls++; G.stall_val = stall_status;',
 'bidib_send_bm_mirror_free': 'G.mir_free++; G.mir_event = ++G.events; G.mir_a0 = node_address.top; G.mir_a1 = node_address.sub; G.mir_a2 = node_address.subsub; G.mir_b0 = mnum;',
 'bidib_send_bm_mirror_multiple': 'G.mir_multi++; G.mir_event = ++G.events; G.mir_a0 = node_address.top; G.mir_a1 = node_address.sub; G.mir_a2 = node_address.subsub; G.mir_b0 = mnum; G.mir_b1 = '
                                  'size; G.mir_ptr = data;',
 'bidib_send_bm_mirror_occ': 'G.mir_occ++; G.mir_event = ++G.events; G.mir_a0 = node_address.top; G.mir_a1 = node_address.sub; G.mir_a2 = node_address.subsub; G.mir_b0 = mnum;',
 'bidib_send_msg_bm_mirror_position': 'G.mir_pos++; G.mir_event = ++G.events; G.mir_a0 = node_address.top; G.mir_a1 = node_address.sub; G.mir_a2 = node_address.subsub; G.mir_b0 = type; G.mir_b1 = '
                                      'location_low; G.mir_b2 = location_high;',
 'bidib_send_node_changed_ack': 'G.acks++; G.ack_event = ++G.events; G.ack_ver = confirmed_number; G.ack_a0 = node_address.top; G.ack_a1 = node_address.sub; G.ack_a2 = node_address.subsub;',
 'bidib_state_accessory_state': 'G.acc_calls++; G.acc_b[0] = number; G.acc_b[1] = aspect; G.acc_b[2] = total; G.acc_b[3] = execution; G.acc_b[4] = wait;',
 'bidib_state_bm_current': 'G.cur_calls++; G.cur_num = number; G.cur_val = current;',
 'bidib_state_bm_occ': 'G.occ_calls++; G.occ_num = number; G.occ_val = occ;',
 'bidib_state_node_lost': 'G.node_lost++; G.node_event = ++G.events; G.uid[0] = unique_id.class_id; G.uid[1] = unique_id.class_id_ext; G.uid[2] = unique_id.vendor_id; G.uid[3] = '
                          'unique_id.product_id1; G.uid[4] = unique_id.product_id2; G.uid[5] = unique_id.product_id3; G.uid[6] = unique_id.product_id4;',
 'bidib_state_node_new': 'G.node_new++; G.node_event = ++G.events; G.nn_local = local_addr; G.nn_a0 = node_address.top; G.nn_a1 = node_address.sub; G.nn_a2 = node_address.subsub; G.uid[0] = '
                         'unique_id.class_id; G.uid[1] = unique_id.class_id_ext; G.uid[2] = unique_id.vendor_id; G.uid[3] = unique_id.product_id1; G.uid[4] = unique_id.product_id2; G.uid[5] = '
                         'unique_id.product_id3; G.uid[6] = unique_id.product_id4;',
 'bidib_state_packet_capacity': 'G.cap_calls++; G.cap_val = max_capacity;',
 'bidib_uplink_error_queue_add': 'G.q_err++; __CPROVER_assert(message == G.message, "C06.dispatch.queued_buffer_is_the_received_message");',
 'bidib_uplink_intern_queue_add': 'G.q_int++; __CPROVER_assert(message == G.message, "C06.dispatch.queued_buffer_is_the_received_message");',
 'bidib_uplink_queue_add': 'G.q_msg++; __CPROVER_assert(message == G.message, "C06.dispatch.queued_buffer_is_the_received_message");'}
KEEP_REAL = {'bidib_first_data_byte_index', 'bidib_booster_normal_to_simple', 'bidib_log_received_message', 'bidib_log_sys_error',
             'bidib_log_boost_stat_error', 'bidib_log_boost_stat_okay', 'bidib_build_message_hex_string'}
PTR_CHECKS = {
    'bidib_state_bm_multiple': ' __CPROVER_assert(__CPROVER_r_ok(data, (size_t)(size / 8)), "C12.dispatch.bm_multiple_bitmap_inside_message");',
    'bidib_send_bm_mirror_multiple': ' __CPROVER_assert(__CPROVER_r_ok(data, (size_t)(size / 8)), "C12.dispatch.mirror_bitmap_inside_message");',
    'bidib_state_bm_address': ' __CPROVER_assert(__CPROVER_r_ok(addresses, (size_t)address_count * 2), "C12.dispatch.bm_address_list_inside_message");',
    'bidib_state_boost_diagnostic': ' __CPROVER_assert(__CPROVER_r_ok(diag_list, (size_t)length), "C12.dispatch.diagnostic_list_inside_message");',
    'bidib_state_vendor': ' __CPROVER_assert(__CPROVER_r_ok(value_list, (size_t)length), "C12.dispatch.vendor_data_inside_message");',
}


def write_stubs(t, workdir, keep=()):
    f = t.get('bidib_handle_received_message')
    L = ['/* GENERATED on every run from the real prototypes: contract stubs of the functions bidib_handle_received_message calls. */',
         '#include "vp_common.h"', '#include <glib.h>']
    hdrs = sorted(glob.glob(REPO + '/include/*.h') + glob.glob(REPO + '/include/*/*.h') + glob.glob(REPO + '/src/*/*.h'))
    L += ['#include "%s"' % os.path.relpath(h, REPO) for h in hdrs]
    L += ['#include "units/C06/dispatch_ghost.h"', 'vp_dispatch_ghost G;', 'static t_bidib_board vp_board;']
    names = []
    for c in f.calls:
        if c in KEEP_REAL or c in keep or c == 'syslog_libbidib':
            continue
        g = t.get(c)
        names.append(c)
        if c == 'bidib_state_get_board_ref_by_nodeaddr':
            L.append('%s %s(%s) { if (!G.board_known) return NULL; vp_board.secack_on = G.secack; return &vp_board; }' % (g.ret, g.name, g.params or 'void'))
            continue
        body = SPECIAL.get(c)
        if body is None:
            body = 'G.setter_calls++;' if c.startswith('bidib_state_') else 'G.other_sends++;'
        body += PTR_CHECKS.get(c, '')
        ret = '' if g.ret.strip() == 'void' else ' %s vp_r; return vp_r;' % g.ret
        L.append('%s %s(%s) { %s%s }' % (g.ret, g.name, g.params or 'void', body, ret))
    p = os.path.join(workdir, 'c06_dispatch_stubs.c')
    with open(p, 'w') as fh:
        fh.write('\n'.join(L) + '\n')
    return p, names


def generate(prop, tier, workdir):
    os.makedirs(workdir, exist_ok=True)
    _t = csrc.Tree()
    # real bodies: the dispatcher and every same-file helper it (transitively) calls, except the three queue-add helpers (replaced by contracts)
    _stubbed_local = {"bidib_uplink_queue_add", "bidib_uplink_error_queue_add", "bidib_uplink_intern_queue_add"}
    _keep, _todo = set(), ["bidib_handle_received_message"]
    while _todo:
        _n = _todo.pop()
        if _n in _keep or _n in _stubbed_local:
            continue
        _f = _t.get(_n)
        if _f is None or not _f.file.endswith("bidib_transmission_receive.c"):
            continue
        _keep.add(_n)
        _todo += _f.calls
    _rm = [f.name for f in _t.by_file[csrc.REPO + "/src/transmission/bidib_transmission_receive.c"] if f.name not in _keep]
    _fn = sorted(_keep)
    stubs, names = write_stubs(_t, workdir, _keep)
    _extra = [csrc.REPO + "/src/transmission/bidib_transmission_util.c", csrc.REPO + "/src/transmission/bidib_transmission_message_string_mapping.c", csrc.REPO + "/src/state/bidib_state.c"]
    _rm_state = [f.name for f in _t.by_file[csrc.REPO + "/src/state/bidib_state.c"] if f.name != "bidib_booster_normal_to_simple"]
    units = [
        Unit(name="C06.dispatch", src="units/C06/dispatch.c", defines=["VP_LONG_ENOUGH"], functions=_fn, props=["C06", "C19", "C15", "C04", "C07"],
             no_dfcc=True, remove_bodies=_rm + ["bidib_communication_works", "bidib_extract_msg_type", "bidib_extract_address", "bidib_extract_seq_num", "bidib_build_message_hex_string"] + _rm_state,
             stub_srcs=[stubs], extra_srcs=_extra,
             extra_flags=["--unwind", "8", "--nondet-static"], unwind_reason="uid copy loop of the harness (7) and address scan (<= 4)",
             timeout=600, covers=4, min_obligations=40,
             prop_filter={"C06": r"C06\.", "C19": r"C19\.", "C15": r"C15\.", "C04": r"C04\.", "C07": r"C07\."},
             stubbed_contracts=["<33 callees of the dispatcher: units/C06/dispatch_stubs.c>"],
             note="all 256 type codes x debug/normal mode x board known/unknown x SecAck on/off x arbitrary payload of sufficient length"),
        Unit(name="C12.dispatch_short", src="units/C06/dispatch.c", functions=_fn, props=["C12"],
             no_dfcc=True, remove_bodies=_rm + ["bidib_communication_works", "bidib_extract_msg_type", "bidib_extract_address", "bidib_extract_seq_num", "bidib_build_message_hex_string"] + _rm_state,
             stub_srcs=[stubs], extra_srcs=_extra,
             extra_flags=["--unwind", "8", "--nondet-static"], unwind_reason="address scan (<= 4)",
             timeout=600, covers=4, min_obligations=40,
             stubbed_contracts=["<33 callees of the dispatcher: units/C06/dispatch_stubs.c>"],
             note="as C06.dispatch but WITHOUT the 'payload as long as its type requires' precondition: memory safety for every message bidib_split_packet can hand over"),
        Unit(name="C06.queue_add", src="units/C06/queue.c", defines=["VP_H_ADD"], functions=["bidib_message_queue_add", "bidib_message_queue_free_head"], props=["C06"],
             no_dfcc=True, remove_bodies=[f for f in _rm if f not in ("bidib_message_queue_add", "bidib_message_queue_free_head")] + ["bidib_handle_received_message", "bidib_log_received_message", "bidib_log_sys_error", "bidib_log_boost_stat_error", "bidib_log_boost_stat_okay"],
             extra_flags=["--nondet-static"], covers=2, min_obligations=8, note="queue of any length 0..128 (lazy queue abstraction)"),
        Unit(name="C06.queue_guard", src="units/C06/queue_guard.c", functions=["bidib_read_message", "bidib_read_error_message", "bidib_read_intern_message", "bidib_uplink_queue_add", "bidib_uplink_error_queue_add", "bidib_uplink_intern_queue_add",
                        "bidib_uplink_queue_reset", "bidib_uplink_error_queue_reset", "bidib_uplink_intern_queue_reset", "bidib_uplink_queue_free", "bidib_uplink_error_queue_free", "bidib_uplink_intern_queue_free"], props=["C06", "C10"],
             no_dfcc=True, remove_bodies=["bidib_handle_received_message", "bidib_log_received_message", "bidib_log_sys_error", "bidib_log_boost_stat_error", "bidib_log_boost_stat_okay", "bidib_receive_packet", "bidib_receive_first_pkt_magic", "bidib_auto_receive", "bidib_split_packet"],
             extra_flags=["--nondet-static", "--unwind", "17"], covers=4, min_obligations=8, kind="bounded", bound="each queue holds 0 or 1 entries (the guard obligation sits on every queue operation, so longer queues add no new call sites)",
             note="guarded-global discipline of the three FIFOs: real lock call sites through the ghost lock model; reset(false) is only called from free() under the lock and is covered through it"),
        Unit(name="C06.queue_read", src="units/C06/queue.c", functions=["bidib_read_message_from_queue"], props=["C06"],
             no_dfcc=True, remove_bodies=[f for f in _rm if f not in ("bidib_read_message_from_queue",)] + ["bidib_handle_received_message", "bidib_log_received_message", "bidib_log_sys_error", "bidib_log_boost_stat_error", "bidib_log_boost_stat_okay"],
             extra_flags=["--nondet-static"], covers=2, min_obligations=8),
    ]
    return [x for x in units if prop in x.props]
