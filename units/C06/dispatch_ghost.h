/* ghost state shared by the dispatcher harness and its contract stubs */
#ifndef VP_DISPATCH_GHOST_H
#define VP_DISPATCH_GHOST_H
#include <stdint.h>
typedef struct {
	unsigned q_msg, q_err, q_int, freed;          /* destinations of the message buffer */
	const uint8_t *message;
	unsigned events;                              /* order counter */
	/* C19 mirrors */
	unsigned mir_occ, mir_free, mir_multi, mir_pos, flushes; unsigned mir_event, flush_event;
	uint8_t mir_a0, mir_a1, mir_a2, mir_b0, mir_b1, mir_b2; const uint8_t *mir_ptr;
	/* C15 node table */
	unsigned node_new, node_lost, acks; unsigned ack_event, node_event; uint8_t ack_ver, ack_a0, ack_a1, ack_a2;
	uint8_t nn_local; uint8_t uid[7]; uint8_t nn_a0, nn_a1, nn_a2;
	/* C04 stall */
	unsigned stall_calls; uint8_t stall_val;
	/* C01 capacity */
	unsigned cap_calls; uint8_t cap_val;
	/* C07 argument spot checks */
	unsigned occ_calls; uint8_t occ_num; _Bool occ_val;
	unsigned cur_calls; uint8_t cur_num, cur_val;
	unsigned acc_calls; uint8_t acc_b[5];
	unsigned setter_calls;                        /* any other state setter */
	unsigned other_sends;
	_Bool board_known, secack;
} vp_dispatch_ghost;
extern vp_dispatch_ghost G;
#endif
