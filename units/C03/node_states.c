/* C03 / C04 / C05: the per-node flow-control functions of bidib_transmission_node_states.c under contract.
 * GLib queues/hash table: stubs/vp_glib.h (unbounded lazy queue abstraction).  One harness per -DVP_H_xxx.
 *
 * Node invariant NI(state):  0 <= current_max_respond <= 48  and  current_max_respond == sum of the table costs
 * (bidib_response_info[type][1]) of all entries of response_queue  (ghost: cost(head) + g_rest_cost);
 * every response entry has type < 0x80 and cost >= 1; every deferred-message entry has type < 0x80 and a heap message
 * of message[0]+1 bytes. */
#include "vp_common.h"
#include "vp_syslog.h"
#include <time.h>
time_t vp_time(void);
double vp_difftime(time_t a, time_t b);
#define time(x) vp_time()
#define difftime(a, b) vp_difftime((a), (b))
void *vp_memcpy_w(void *dst, const void *src, size_t n);
#define memcpy(d, s, n) vp_memcpy_w((d), (s), (n))
#include "src/transmission/bidib_transmission_node_states.c"
#undef memcpy
#undef time
#undef difftime
#include "src/transmission/bidib_transmission_responses.c"
#include "vp_glib.h"

/* ---- ghost */
t_bidib_node_state *g_state;        /* the node the harness looks at */
int g_rest_cost;                    /* table cost of the response entries behind the head */
int g_head_cost;                    /* table cost of the head response entry (0 when the queue is empty) */
guint g_old_ml;
unsigned g_nn_lookups; t_bidib_node_state *g_other; const uint8_t *g_key;
uint8_t g_path[4][4]; _Bool g_path_valid[4]; t_bidib_node_state *g_path_state[4]; unsigned g_path_lookups[4]; _Bool g_found; unsigned g_push_to[4];
size_t g_w;                         /* watched message byte */
time_t g_now;
unsigned g_add_calls; const uint8_t *g_add_msg; uint8_t g_add_watch; unsigned g_flush_calls;
unsigned g_popped_msgs;
_Bool g_sr_ret;                     /* what bidib_node_stall_ready answers (contract) */
unsigned g_sr_calls;
unsigned g_tq_calls; t_bidib_node_state *g_tq_last;

#define COST(t) (bidib_response_info[(t)][1])

time_t vp_time(void) { return g_now; }
double vp_difftime(time_t a, time_t b) { return (double)(a - b); }

void *vp_memcpy_w(void *dst, const void *src, size_t n) {
	__CPROVER_assert(__CPROVER_w_ok(dst, n), "C12.memcpy_destination_writable");
	__CPROVER_assert(__CPROVER_r_ok(src, n), "C12.memcpy_source_readable");
	/* destination is a fresh heap object (nondeterministic content); the bytes an assertion looks at are copied */
	if (n == 4) { for (int k = 0; k < 4; k++) ((uint8_t *)dst)[k] = ((const uint8_t *)src)[k]; }
	else { if (n > 0) ((uint8_t *)dst)[0] = ((const uint8_t *)src)[0]; if (g_w < n) ((uint8_t *)dst)[g_w] = ((const uint8_t *)src)[g_w]; }
	return dst;
}

static t_bidib_response_queue_entry *fresh_response(int maxcost, _Bool exact) {
	t_bidib_response_queue_entry *e = malloc(sizeof *e);
	__CPROVER_assume(e != NULL);
	uint8_t t; __CPROVER_assume(t < 0x80 && COST(t) >= 1 && COST(t) <= maxcost && (!exact || COST(t) == maxcost));
	e->type = t;
	time_t c; __CPROVER_assume(c >= 0 && c <= g_now);
	e->creation_time = c;
	return e;
}
static t_bidib_message_queue_entry *fresh_message(void) {
	t_bidib_message_queue_entry *e = malloc(sizeof *e);
	__CPROVER_assume(e != NULL);
	uint8_t t; __CPROVER_assume(t < 0x80);
	e->type = t;
	uint8_t l; __CPROVER_assume(l >= 3 && l <= 127);
	e->message = malloc((size_t)l + 1);
	__CPROVER_assume(e->message != NULL);
	e->message[0] = l;
	e->addr[0] = g_state->addr[0]; e->addr[1] = g_state->addr[1]; e->addr[2] = g_state->addr[2]; e->addr[3] = g_state->addr[3];
	return e;
}
gpointer vp_q_fresh(GQueue *q) {
	if (q == g_state->response_queue) {
		/* q->length is the number of entries incl. the new head; their costs add up to g_rest_cost */
		t_bidib_response_queue_entry *e = fresh_response(g_rest_cost, q->length == 1);
		g_rest_cost -= COST(e->type);
		g_head_cost = COST(e->type);
		__CPROVER_assume(g_rest_cost >= (int)q->length - 1);
		return e;
	}
	if (q == g_state->message_queue) return fresh_message();
	t_bidib_stall_queue_entry *s = malloc(sizeof *s);
	__CPROVER_assume(s != NULL);
	return s;
}
void vp_q_pushed(GQueue *q, gpointer e) {
#ifdef VP_H_STALL_READY
	for (int l = 0; l < 4; l++) if (g_path_state[l] != NULL && q == g_path_state[l]->stall_affected_nodes_queue) g_push_to[l]++;
	return;
#endif
	if (q == g_state->response_queue) {
		if (q->length > 1) g_rest_cost += COST(((t_bidib_response_queue_entry *)e)->type);
		else g_head_cost = COST(((t_bidib_response_queue_entry *)e)->type);
	}
}
void vp_q_popped(GQueue *q, gpointer e) {
	if (q == g_state->message_queue) g_popped_msgs++;
	if (q == g_state->response_queue && q->length == 0) g_head_cost = 0;
}

gpointer g_hash_table_lookup(GHashTable *t, gconstpointer key) {
	const uint8_t *k = key;
#ifdef VP_H_STALL_READY
	for (int l = 0; l < 4; l++) if (k[0] == g_path[l][0] && k[1] == g_path[l][1] && k[2] == g_path[l][2] && k[3] == 0 && g_path_valid[l]) { g_path_lookups[l]++; return g_path_state[l]; }
	return NULL;
#endif
	if (k == g_key) return g_state;   /* the node the harness talks to is in the table (a first contact creates the all-empty state, which NI covers) */
#ifdef VP_H_UPDATE_STALL
	_Bool known;   /* a waiting node may or may not (no longer) be in the table */
	if (known) { g_nn_lookups++; return g_other; }
#endif
	return NULL;   /* other nodes: unknown to the table (a fresh node is created by bidib_node_query) */
}

/* arbitrary node state satisfying NI */
static void make_state(void) {
	g_state = malloc(sizeof *g_state);
	__CPROVER_assume(g_state != NULL);
	uint8_t a[4]; __CPROVER_assume(a[3] == 0 && (a[0] != 0 || (a[1] == 0 && a[2] == 0)) && (a[1] != 0 || a[2] == 0));
	g_state->addr[0] = a[0]; g_state->addr[1] = a[1]; g_state->addr[2] = a[2]; g_state->addr[3] = 0;
	_Bool st; g_state->stall = st;
	g_state->response_queue = g_queue_new(); g_state->message_queue = g_queue_new(); g_state->stall_affected_nodes_queue = g_queue_new();
	time_t now; __CPROVER_assume(now >= 0 && now < (1L << 40)); g_now = now;
	guint rl, ml, sl; __CPROVER_assume(rl <= 48 && ml < 1000000 && sl < 1000000);
	g_state->response_queue->length = rl; g_state->message_queue->length = ml; g_state->stall_affected_nodes_queue->length = sl;
	int total; __CPROVER_assume(total >= (int)rl && total <= 48 && (rl > 0 || total == 0));
	g_state->current_max_respond = total;
	g_rest_cost = total; g_head_cost = 0;
	if (rl > 0) g_state->response_queue->head = (GList *)vp_q_fresh(g_state->response_queue);
	if (ml > 0) g_state->message_queue->head = (GList *)fresh_message();
	if (sl > 0) g_state->stall_affected_nodes_queue->head = (GList *)vp_q_fresh(g_state->stall_affected_nodes_queue);
	g_add_calls = 0; g_flush_calls = 0; g_popped_msgs = 0; g_sr_calls = 0; g_tq_calls = 0;
	response_limit = 48;   /* C initialiser of the file-static; never assigned anywhere in node_states.c (DFCC havocs statics) */
}
#define NI_HOLDS() (g_state->current_max_respond >= 0 && g_state->current_max_respond <= 48 && g_rest_cost >= 0 && \
                    g_state->current_max_respond == g_head_cost + g_rest_cost && (g_state->response_queue->length > 0 || (g_rest_cost == 0 && g_head_cost == 0)) && \
                    (g_state->response_queue->length == 0 || g_head_cost == COST(((t_bidib_response_queue_entry *)g_state->response_queue->head)->type)))

/* ---- callee contracts */
void bidib_add_to_buffer(const uint8_t *const message)
__CPROVER_requires(__CPROVER_r_ok(message, (size_t)message[0] + 1) && message[0] >= 3 && message[0] <= 127)
__CPROVER_assigns(g_add_calls, g_add_msg, g_add_watch)
__CPROVER_ensures(g_add_calls == __CPROVER_old(g_add_calls) + 1 && g_add_msg == message)
;
void bidib_flush(void)
__CPROVER_assigns(g_flush_calls)
__CPROVER_ensures(g_flush_calls == __CPROVER_old(g_flush_calls) + 1)
;
#if defined(VP_H_TRY_SEND) || defined(VP_H_TRY_QUEUED)
static bool bidib_node_stall_ready(const uint8_t *const addr_stack)
__CPROVER_requires(__CPROVER_r_ok(addr_stack, 4))
__CPROVER_assigns(g_sr_calls)
__CPROVER_ensures(__CPROVER_return_value == g_sr_ret && g_sr_calls == __CPROVER_old(g_sr_calls) + 1)
;
#endif
#ifdef VP_H_UPDATE_STALL
static void bidib_node_try_queued_messages(t_bidib_node_state *state)
__CPROVER_assigns(g_tq_calls, g_tq_last)
__CPROVER_ensures(g_tq_calls == __CPROVER_old(g_tq_calls) + 1 && g_tq_last == state)
;
#endif
#ifdef VP_H_STATE_UPDATE
int g_tq_cmr;    /* budget counter at the moment of the (last) retry of the deferred queue */
/* contract of bidib_node_try_queued_messages as proved in its own unit: on return the oldest held message is not stranded
 * (stalled, or nothing held, or it does not fit); here only the fact and the moment of the call are recorded */
static void bidib_node_try_queued_messages(t_bidib_node_state *state)
__CPROVER_requires(state == g_state)
__CPROVER_assigns(g_tq_calls, g_tq_cmr)
__CPROVER_ensures(g_tq_calls == __CPROVER_old(g_tq_calls) + 1 && g_tq_cmr == g_state->current_max_respond)
;
#endif

#ifdef VP_H_SEQNUM
void vp_harness(void) {
	uint8_t in_s; VP_IN(uint8_t, in_s);
	uint8_t s = in_s;
	uint8_t r = bidib_get_and_incr_seqnum(&s);
	VP_COVER(in_s == 255);
	__CPROVER_assert(r == in_s, "C05.seqnum.returns_the_current_number");
	__CPROVER_assert(s == (in_s == 255 ? 1 : (uint8_t)(in_s + 1)), "C05.seqnum.successor_wraps_255_to_1");
	__CPROVER_assert(in_s == 0 || s != 0, "C05.seqnum.never_zero_once_started");
}
#endif

#ifdef VP_H_SEQ_ACCESSORS
/* the three per-node counter accessors: each touches only its own counter of the addressed node */
void vp_harness(void) {
	make_state();
	uint8_t addr[4] = {g_state->addr[0], g_state->addr[1], g_state->addr[2], 0}; g_key = addr;
	uint8_t s0 = g_state->send_seqnum, r0 = g_state->receive_seqnum; int cmr0 = g_state->current_max_respond; _Bool st0 = g_state->stall;
	unsigned which; VP_IN(unsigned, which); __CPROVER_assume(which < 3); uint8_t v; VP_IN(uint8_t, v);
	uint8_t ret = 0;
	if (which == 0) ret = bidib_node_state_get_and_incr_send_seqnum(addr);
	else if (which == 1) ret = bidib_node_state_get_and_incr_receive_seqnum(addr);
	else bidib_node_state_set_receive_seqnum(addr, v);
	VP_COVER(which == 0 && s0 == 255); VP_COVER(which == 2 && v == 2 && s0 == 7); VP_COVER(which == 1);
	uint8_t succ_s = s0 == 255 ? 1 : (uint8_t)(s0 + 1), succ_r = r0 == 255 ? 1 : (uint8_t)(r0 + 1);
	__CPROVER_assert(g_state->send_seqnum == (which == 0 ? succ_s : s0), "C05.counters.downlink_number_advances_only_when_a_downlink_number_is_allocated (uplink resynchronisation never touches it)");
	__CPROVER_assert(g_state->receive_seqnum == (which == 0 ? r0 : which == 1 ? succ_r : v), "C05.counters.uplink_expectation_changes_only_through_its_own_accessors");
	if (which == 0) __CPROVER_assert(ret == s0, "C05.counters.allocated_number_is_the_current_one");
	__CPROVER_assert(g_state->current_max_respond == cmr0 && g_state->stall == st0, "C05.counters.budget_and_stall_untouched");
}
#endif

#ifdef VP_H_TRY_SEND
void vp_harness(void) {
	make_state();
	__CPROVER_assume(NI_HOLDS());
	uint8_t in_type; VP_IN(uint8_t, in_type); __CPROVER_assume(in_type < 0x80);          /* senders' contract (C18) */
	uint8_t in_len; VP_IN(uint8_t, in_len); __CPROVER_assume(in_len >= 3 && in_len <= 127);
	uint8_t *msg = malloc((size_t)in_len + 1); __CPROVER_assume(msg != NULL); msg[0] = in_len;
	VP_IN(size_t, g_w); __CPROVER_assume(g_w <= in_len);
	VP_IN(_Bool, g_sr_ret);
	uint8_t addr[4] = {g_state->addr[0], g_state->addr[1], g_state->addr[2], 0}; g_key = addr;
	int old_cmr = g_state->current_max_respond; guint old_ml = g_state->message_queue->length; guint old_rl = g_state->response_queue->length;
	int cost = COST(in_type);
	bool r = bidib_node_try_send(addr, in_type, msg, 7);
	VP_COVER(r && cost > 0);
	VP_COVER(!r && g_sr_ret && old_ml == 0);
	VP_COVER(r && cost == 0);
	__CPROVER_assert(NI_HOLDS(), "C03.try_send.budget_invariant_preserved (outstanding response bytes <= 48, counter == sum of queue)");
	__CPROVER_assert(r == (g_sr_ret && old_ml == 0 && old_cmr + cost <= 48), "C03.try_send.admitted_iff_not_stalled_and_nothing_deferred_and_budget_has_room");
	if (r) {
		__CPROVER_assert(g_state->current_max_respond == old_cmr + cost, "C03.try_send.cost_charged");
		__CPROVER_assert(g_state->response_queue->length == old_rl + (cost > 0 ? 1u : 0u), "C03.try_send.response_recorded");
		__CPROVER_assert(g_state->message_queue->length == old_ml, "C03.try_send.nothing_deferred_when_admitted");
	} else {
		__CPROVER_assert(g_state->current_max_respond == old_cmr && g_state->response_queue->length == old_rl, "C03.try_send.budget_untouched_when_deferred");
		__CPROVER_assert(g_state->message_queue->length == old_ml + 1, "C03.try_send.deferred_message_appended_at_the_tail_once");
	}
	__CPROVER_assert(g_add_calls == 0, "C03.try_send.does_not_transmit_itself");
}
#endif

#ifdef VP_H_TRY_QUEUED
void vp_harness(void) {
	make_state();
	__CPROVER_assume(NI_HOLDS());
	VP_IN(size_t, g_w);
	VP_IN(_Bool, g_sr_ret);
	guint old_ml = g_state->message_queue->length; g_old_ml = old_ml;
	__CPROVER_assume(old_ml <= 4);   /* bounded stand-in: at most 4 held messages (stated bound) */
	bidib_node_try_queued_messages(g_state);
	VP_COVER(g_add_calls >= 1);
	VP_COVER(g_add_calls == 0 && old_ml > 0 && g_sr_ret);
	__CPROVER_assert(NI_HOLDS(), "C03.try_queued.budget_invariant_preserved");
	__CPROVER_assert(g_add_calls == g_popped_msgs && g_state->message_queue->length + g_popped_msgs == old_ml, "C03.try_queued.each_released_message_transmitted_exactly_once_from_the_head");
	__CPROVER_assert(g_sr_ret || g_add_calls == 0, "C04.try_queued.nothing_released_while_stalled");
	/* never stranded: on return the node is stalled, or nothing is held, or the oldest held message does not fit */
	_Bool fits = g_state->message_queue->length > 0 &&
	             g_state->current_max_respond + COST(((t_bidib_message_queue_entry *)g_state->message_queue->head)->type) <= 48;
	__CPROVER_assert(!g_sr_ret || !fits, "C03.try_queued.oldest_held_message_not_stranded");
	__CPROVER_assert(g_flush_calls == (g_add_calls > 0 ? 1u : 0u), "C03.try_queued.flushed_once_iff_something_released");
}
#endif

#ifdef VP_H_UPDATE_STALL
void vp_harness(void) {
	make_state();
	uint8_t in_status; VP_IN(uint8_t, in_status);
	uint8_t addr[4] = {g_state->addr[0], g_state->addr[1], g_state->addr[2], 0}; g_key = addr;
	guint old_sl = g_state->stall_affected_nodes_queue->length;
	g_other = malloc(sizeof *g_other); __CPROVER_assume(g_other != NULL);
	g_nn_lookups = 0;
	__CPROVER_assume(old_sl <= 4);   /* bounded stand-in: at most 4 waiters (stated bound) */
	bidib_node_update_stall(addr, in_status);
	VP_COVER(in_status == 0 && old_sl > 1);
	VP_COVER(in_status != 0);
	if (in_status == 0) {
		__CPROVER_assert(!g_state->stall, "C04.update_stall.flag_cleared_on_stall_0");
		__CPROVER_assert(g_state->stall_affected_nodes_queue->length == 0, "C04.update_stall.every_waiter_taken_off_the_list");
		__CPROVER_assert(g_tq_calls == g_nn_lookups, "C04.update_stall.every_known_waiter_retried_exactly_once");
	} else {
		__CPROVER_assert(g_state->stall, "C04.update_stall.flag_set_on_stall_1");
		__CPROVER_assert(g_state->stall_affected_nodes_queue->length == old_sl && g_tq_calls == 0, "C04.update_stall.nothing_released_on_stall_1");
	}
}
#endif

#ifdef VP_H_STATE_UPDATE
/* is `t` one of the answer types the table accepts for request type `req`? */
static _Bool accepted(uint8_t req, uint8_t t) { for (int i = 2; i <= 5; i++) if (i <= bidib_response_info[req][0] && bidib_response_info[req][i] == t) return 1; return 0; }
void vp_harness(void) {
	make_state();
	__CPROVER_assume(NI_HOLDS());
	uint8_t in_type; VP_IN(uint8_t, in_type);                    /* uplink type code: any of the 256 */
	__CPROVER_assume(g_state->response_queue->length <= 3);      /* bounded stand-in: stated bound */
	uint8_t addr[4] = {g_state->addr[0], g_state->addr[1], g_state->addr[2], 0}; g_key = addr;
	guint old_rl = g_state->response_queue->length; int old_cmr = g_state->current_max_respond;
	t_bidib_response_queue_entry *head = old_rl ? (t_bidib_response_queue_entry *)g_state->response_queue->head : NULL;
	uint8_t head_type = head ? head->type : 0; _Bool head_expired = head ? (vp_difftime(g_now, head->creation_time) >= 2) : 0;
	unsigned head_action = head ? head->action_id : 0;
	g_tq_calls = 0;
	unsigned r = bidib_node_state_update(addr, in_type);
	VP_COVER(old_rl > 0 && accepted(head_type, in_type));
	VP_COVER(old_rl > 1 && head_expired);
	__CPROVER_assert(NI_HOLDS(), "C03.update.budget_invariant_preserved");
	__CPROVER_assert(g_state->current_max_respond <= old_cmr, "C03.update.an_uplink_message_never_increases_the_outstanding_budget");
	if (old_rl > 0 && accepted(head_type, in_type)) {
		__CPROVER_assert(g_state->response_queue->length < old_rl, "C03.update.matching_answer_removes_the_oldest_request");
		/* also when the oldest request is already past its expiry: the late answer is ITS answer - a younger request that accepts
		 * the same type is neither answered nor expired and stays in the budget (finding D25) */
		__CPROVER_assert(r == head_action && g_state->response_queue->length == old_rl - 1 && g_state->current_max_respond == old_cmr - COST(head_type),
		                 "C03.update.an_answer_is_attributed_to_the_oldest_request_that_accepts_it_and_frees_exactly_that_requests_cost");
	}
	if (old_rl > 0 && !head_expired && !accepted(head_type, in_type))
		__CPROVER_assert(g_state->response_queue->length == old_rl && g_state->current_max_respond == old_cmr && r == 0, "C03.update.unrelated_message_changes_nothing_before_expiry");
	/* expiry must not swallow the answer: if this call only expired requests (matched none) and stopped at a request that is still in
	 * time and accepts the arriving type, that request should have been matched by it */
	if (g_state->response_queue->length < old_rl && g_tq_calls == 0 && g_state->response_queue->length > 0) {
		t_bidib_response_queue_entry *h2 = (t_bidib_response_queue_entry *)g_state->response_queue->head;
		__CPROVER_assert(!(accepted(h2->type, in_type) && vp_difftime(g_now, h2->creation_time) < 2), "C03.update.after_an_expiry_the_next_request_is_matched_against_all_its_answer_types");
	}
	/* never stranded: whenever the budget changed, the deferred queue was retried with the final budget */
	if (g_state->current_max_respond != old_cmr)
		__CPROVER_assert(g_tq_calls >= 1 && g_tq_cmr == g_state->current_max_respond, "C03.update.deferred_queue_retried_after_every_budget_release (answer or expiry)");
}
#endif

#ifdef VP_H_STALL_READY
GList *g_queue_find_custom(GQueue *queue, gconstpointer data, GCompareFunc func) { return g_found ? (GList *)queue : NULL; }
/* node address a (depth 1..3, or the interface 0.0.0) and its ancestors: level 0 = the node itself, then its parent, ...; the
 * interface itself (0.0.0) is the last ancestor of every node */
void vp_harness(void) {
	uint8_t a[4]; __CPROVER_assume(a[3] == 0 && (a[0] != 0 || (a[1] == 0 && a[2] == 0)) && (a[1] != 0 || a[2] == 0));
	unsigned depth = a[0] == 0 ? 0 : a[1] == 0 ? 1 : a[2] == 0 ? 2 : 3;
	static t_bidib_node_state st[4];
	g_state = &st[0];
	for (int l = 0; l < 4; l++) {
		g_path_valid[l] = (unsigned)l <= depth;
		for (int b = 0; b < 4; b++) g_path[l][b] = (b < (int)depth - l) ? a[b] : 0;
		_Bool exists; g_path_state[l] = (g_path_valid[l] && exists) ? &st[l] : NULL;
		st[l].stall = st[l].stall ? 1 : 0; st[l].stall_affected_nodes_queue = g_queue_new(); guint n; st[l].stall_affected_nodes_queue->length = n % 5;
		g_path_lookups[l] = 0; g_push_to[l] = 0;
	}
	VP_IN(_Bool, g_found);
	bool r = bidib_node_stall_ready(a);
	VP_COVER(!r && depth == 3);
	VP_COVER(r && depth == 2);
	/* nearest stalled node on the path node -> parent -> ... -> interface */
	int nearest = -1;
	for (int l = 3; l >= 0; l--) if (g_path_valid[l] && g_path_state[l] != NULL && g_path_state[l]->stall) nearest = l;
	__CPROVER_assert(r == (nearest < 0), "C04.stall_ready.true_iff_neither_the_node_nor_any_ancestor_is_stalled");
	for (int l = 0; l < 4; l++)
		__CPROVER_assert(g_push_to[l] == ((l == nearest && !g_found) ? 1u : 0u), "C04.stall_ready.registered_once_as_waiter_at_the_nearest_stalled_node_and_nowhere_else");
}
#endif
