from vpkg.core import Unit
SRC = "units/C03/node_states.c"
NI = ("g_state->current_max_respond >= 0 && g_state->current_max_respond <= 48 && g_rest_cost >= 0 && "
      "g_state->current_max_respond == g_head_cost + g_rest_cost && "
      "(g_state->response_queue->length > 0 || (g_rest_cost == 0 && g_head_cost == 0))")
UNITS = [
    Unit(name="C05.seqnum", src=SRC, defines=["VP_H_SEQNUM"], functions=["bidib_get_and_incr_seqnum"], props=["C05"], no_dfcc=True,
         extra_flags=["--nondet-static"], covers=1, min_obligations=3, note="all 256 counter values"),
    Unit(name="C05.seq_accessors", src=SRC, defines=["VP_H_SEQ_ACCESSORS"], functions=["bidib_node_state_get_and_incr_send_seqnum", "bidib_node_state_get_and_incr_receive_seqnum", "bidib_node_state_set_receive_seqnum", "bidib_get_and_incr_seqnum", "bidib_node_query"],
         props=["C05"], no_dfcc=True, extra_flags=["--nondet-static", "--unwind", "6"], covers=3, min_obligations=6, timeout=300,
         remove_bodies=["bidib_node_try_send", "bidib_node_try_queued_messages", "bidib_node_state_update", "bidib_node_update_stall", "bidib_node_state_table_reset", "bidib_node_state_table_free", "bidib_node_stall_ready"],
         note="arbitrary node state; loop-free: complete"),
    Unit(name="C03.try_send", src=SRC, defines=["VP_H_TRY_SEND"], functions=["bidib_node_try_send", "bidib_node_query", "bidib_node_state_add_response", "bidib_node_state_add_message"],
         props=["C03", "C04", "C05"], replace=["bidib_node_stall_ready", "bidib_add_to_buffer", "bidib_flush"],
         unwindset={"vp_memcpy_w.0": 5}, unwind_reason="4-byte address copy in the memcpy contract stub",
         timeout=300, covers=3, min_obligations=10,
         note="arbitrary node state satisfying the node invariant (queues of any length via the lazy queue abstraction), every request type < 0x80"),
    Unit(name="C03.try_queued_messages", src=SRC, defines=["VP_H_TRY_QUEUED"], functions=["bidib_node_try_queued_messages", "bidib_node_state_add_response"],
         props=["C03", "C04"], replace=["bidib_node_stall_ready", "bidib_add_to_buffer", "bidib_flush"], kind="bounded",
         bound="release loop unwound 5 times (up to 4 deferred messages released per call; each from an arbitrary queue state via the lazy queue abstraction), no unwinding assertion; "
               "the DFCC loop-contract proof of this heap-manipulating loop did not finish within 600 s",
         unwindset={"bidib_node_try_queued_messages.0": 5}, unwind_assert=False, timeout=600, covers=2, min_obligations=10),
    Unit(name="C04.update_stall", src=SRC, defines=["VP_H_UPDATE_STALL"], functions=["bidib_node_update_stall", "bidib_node_query"],
         props=["C04"], replace=["bidib_node_try_queued_messages", "bidib_add_to_buffer", "bidib_flush"], kind="bounded",
         bound="waiter loop unwound 5 times (up to 4 waiting nodes retried per call, each arbitrary via the lazy queue abstraction), no unwinding assertion",
         unwindset={"bidib_node_update_stall.0": 6}, unwind_assert=False, extra_flags=["--unwind", "6"],   # any other (new) loop is cut at 6 as well instead of being unwound forever
         remove_bodies=["bidib_node_stall_ready"], timeout=600, covers=2, min_obligations=8),
    Unit(name="C03.state_update", src=SRC, defines=["VP_H_STATE_UPDATE"], functions=["bidib_node_state_update"], props=["C03"],
         replace=["bidib_node_try_queued_messages", "bidib_add_to_buffer", "bidib_flush"], remove_bodies=["bidib_node_stall_ready"],
         kind="bounded", bound="at most 3 outstanding requests per node (each arbitrary: type, age, cost via the lazy queue abstraction); the two scan loops are unwound completely for that size"
                               "",
         unwindset={"bidib_node_state_update.0": 5, "bidib_node_state_update.1": 5, "accepted.0": 6}, timeout=900, covers=2, min_obligations=10,
         note="all 256 uplink type codes, arbitrary request ages"),
    Unit(name="C04.stall_ready", src=SRC, defines=["VP_H_STALL_READY"], functions=["bidib_node_stall_ready"], props=["C04"], no_dfcc=True,
         remove_bodies=["bidib_node_try_send", "bidib_node_try_queued_messages", "bidib_node_state_update", "bidib_node_update_stall", "bidib_node_state_table_reset", "bidib_node_state_table_free",
                        "bidib_node_query", "bidib_node_state_add_response", "bidib_node_state_add_message"],
         extra_flags=["--nondet-static", "--unwind", "6"], unwind_reason="ancestor walk bounded by the 3 address levels (unwinding assertions prove it)", covers=2, min_obligations=6,
         note="every node address of depth 0..3, every combination of existing / stalled nodes on its path, waiter already registered or not"),
]
