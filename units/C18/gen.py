"""C18 (and the mirror encoders of C19): one generated unit per public low-level send function.

Oracle: TABLE below, written from the documented parameter ranges in /repo/include/lowlevel/*.h and the BiDiB message
reference (type code = MSG_<NAME>, data bytes in declaration order) - NOT from the implementation.
Each harness calls the real function with every scalar parameter nondeterministic over its full type, an arbitrary node
address (depth 0..3) and, for variable payloads, a heap buffer of exactly the announced length.
bidib_buffer_message_with_data / _without_data are replaced by their contract (contracts/send_contract.h): the
preconditions the C01 units assume (type < 0x80, length byte <= 127, readable payload, terminated address stack) are
asserted at the call, the call is recorded in ghost state (count, type, address, length, one watched payload byte).
All loops are bounded by uint8_t lengths that the preceding range check caps => complete unwinding (unwinding assertions on).
"""
import os, re
from vpkg.core import Unit, REPO, VERIF
from vpkg import csrc

SERVES = ["C18", "C19"]

A = "node_address"


def fixed(typ, data, accept="1", file=None):
    return {"type": typ, "data": data, "accept": accept}


# name -> spec.  data: list of C expressions over the parameters (fixed payload), or
#   var: {"len": C expr, "head": [exprs], "tails": [(src pointer expr, count expr)]}  payload = head ++ tail bytes...
#   bufs: {pointer parameter or struct member: length expr}  heap buffers handed in by the caller (exactly that long)
TABLE = {
    # --- system
    "bidib_send_sys_get_magic": fixed("MSG_SYS_GET_MAGIC", []),
    "bidib_send_sys_get_p_version": fixed("MSG_SYS_GET_P_VERSION", []),
    "bidib_send_sys_enable": dict(fixed("MSG_SYS_ENABLE", []), broadcast=True),
    "bidib_send_sys_disable": dict(fixed("MSG_SYS_DISABLE", []), broadcast=True),
    "bidib_send_sys_get_unique_id": fixed("MSG_SYS_GET_UNIQUE_ID", []),
    "bidib_send_sys_get_sw_version": fixed("MSG_SYS_GET_SW_VERSION", []),
    "bidib_send_sys_ping": fixed("MSG_SYS_PING", ["ping_byte"]),
    "bidib_send_sys_identify": fixed("MSG_SYS_IDENTIFY", ["identify_status"], "identify_status <= 1"),
    "bidib_send_sys_get_error": fixed("MSG_SYS_GET_ERROR", []),
    "bidib_send_nodetab_getall": fixed("MSG_NODETAB_GETALL", []),
    "bidib_send_nodetab_getnext": fixed("MSG_NODETAB_GETNEXT", []),
    "bidib_send_get_pkt_capacity": fixed("MSG_GET_PKT_CAPACITY", []),
    "bidib_send_node_changed_ack": fixed("MSG_NODE_CHANGED_ACK", ["confirmed_number"]),
    "bidib_send_sys_clock": fixed("MSG_SYS_CLOCK", ["tcode0", "tcode1", "tcode2", "tcode3"],
                                  "tcode0 <= 59 && tcode1 >= 128 && tcode1 <= 128 + 23 && tcode2 >= 64 && tcode2 <= 64 + 6 && tcode3 >= 192 && tcode3 <= 192 + 31"),
    # --- feature
    "bidib_send_feature_getall": fixed("MSG_FEATURE_GETALL", []),
    "bidib_send_feature_getnext": fixed("MSG_FEATURE_GETNEXT", []),
    "bidib_send_feature_get": fixed("MSG_FEATURE_GET", ["feature_number"]),
    "bidib_send_feature_set": fixed("MSG_FEATURE_SET", ["feature_number", "feature_value"]),
    # --- user config
    "bidib_send_vendor_enable": fixed("MSG_VENDOR_ENABLE", ["unique_id.class_id", "unique_id.class_id_ext", "unique_id.vendor_id",
                                                            "unique_id.product_id1", "unique_id.product_id2", "unique_id.product_id3", "unique_id.product_id4"]),
    "bidib_send_vendor_disable": fixed("MSG_VENDOR_DISABLE", []),
    "bidib_send_vendor_set": {"type": "MSG_VENDOR_SET", "accept": "(unsigned)vendor_data.name_length + (unsigned)vendor_data.value_length <= 119",
                              "bufs": {"vendor_data.name": "vendor_data.name_length", "vendor_data.value": "vendor_data.value_length"},
                              "var": {"len": "(unsigned)vendor_data.name_length + (unsigned)vendor_data.value_length + 2",
                                      "segments": [("byte", "vendor_data.name_length"), ("buf", "vendor_data.name", "vendor_data.name_length"),
                                                   ("byte", "vendor_data.value_length"), ("buf", "vendor_data.value", "vendor_data.value_length")]}},
    "bidib_send_vendor_get": {"type": "MSG_VENDOR_GET", "accept": "name_length <= 120", "bufs": {"name": "name_length"},
                              "var": {"len": "(unsigned)name_length + 1", "segments": [("byte", "name_length"), ("buf", "name", "name_length")]}},
    "bidib_send_string_set": {"type": "MSG_STRING_SET", "accept": "string_size <= 118", "bufs": {"string": "string_size"},
                              "var": {"len": "(unsigned)string_size + 3",
                                      "segments": [("byte", "namespace"), ("byte", "string_id"), ("byte", "string_size"), ("buf", "string", "string_size")]}},
    "bidib_send_string_get": fixed("MSG_STRING_GET", ["namespace", "string_id"]),
    # --- occupancy
    "bidib_send_bm_get_range": fixed("MSG_BM_GET_RANGE", ["start", "end"], "start % 8 == 0 && end % 8 == 0"),
    "bidib_send_bm_mirror_multiple": {"type": "MSG_BM_MIRROR_MULTIPLE", "accept": "mnum % 8 == 0 && size >= 8 && size <= 128 && size % 8 == 0",
                                      "bufs": {"data": "(size / 8)"},
                                      "var": {"len": "2u + size / 8", "segments": [("byte", "mnum"), ("byte", "size"), ("buf", "data", "(size / 8)")]}},
    "bidib_send_bm_mirror_occ": fixed("MSG_BM_MIRROR_OCC", ["mnum"]),
    "bidib_send_bm_mirror_free": fixed("MSG_BM_MIRROR_FREE", ["mnum"]),
    "bidib_send_bm_addr_get_range": fixed("MSG_BM_ADDR_GET_RANGE", ["start", "end"], "start <= end"),
    "bidib_send_bm_get_confidence": fixed("MSG_BM_GET_CONFIDENCE", []),
    "bidib_send_msg_bm_mirror_position": fixed("MSG_BM_MIRROR_POSITION", ["type", "location_low", "location_high"]),
    # --- booster
    "bidib_send_boost_on": fixed("MSG_BOOST_ON", ["unicast"], "unicast <= 1"),
    "bidib_send_boost_off": fixed("MSG_BOOST_OFF", ["unicast"], "unicast <= 1"),
    "bidib_send_boost_query": fixed("MSG_BOOST_QUERY", []),
    # --- accessory
    "bidib_send_accessory_set": fixed("MSG_ACCESSORY_SET", ["anum", "aspect"], "anum <= 127 && aspect <= 127"),
    "bidib_send_accessory_get": fixed("MSG_ACCESSORY_GET", ["anum"], "anum <= 127"),
    "bidib_send_accessory_para_set_opmode": fixed("MSG_ACCESSORY_PARA_SET", ["anum", "BIDIB_ACCESSORY_PARA_OPMODE", "anum_op"], "anum <= 127 && anum_op <= 127"),
    "bidib_send_accessory_para_set_startup": fixed("MSG_ACCESSORY_PARA_SET", ["anum", "BIDIB_ACCESSORY_PARA_STARTUP", "startup_behaviour"],
                                                   "anum <= 127 && (startup_behaviour <= 127 || startup_behaviour >= 254)"),
    "bidib_send_accessory_para_set_macromap": {"type": "MSG_ACCESSORY_PARA_SET",
                                               "accept": "anum <= 127 && data_size >= 1 && data_size <= 16 && data[data_size - 1] == 0xFF",
                                               "accept_guard": "data_size >= 1",  # the oracle itself must not read data[-1]
                                               "bufs": {"data": "data_size"},
                                               "var": {"len": "2u + data_size", "segments": [("byte", "anum"), ("byte", "BIDIB_ACCESSORY_PARA_MACROMAP"), ("buf", "data", "data_size")]}},
    "bidib_send_accessory_para_set_switch_time": fixed("MSG_ACCESSORY_PARA_SET", ["anum", "BIDIB_ACCESSORY_SWITCH_TIME", "time"], "anum <= 127"),
    "bidib_send_accessory_para_get": fixed("MSG_ACCESSORY_PARA_GET", ["anum", "para_num"], "anum <= 127 && para_num >= 251"),
    # --- port config
    "bidib_send_lc_output": fixed("MSG_LC_OUTPUT", ["port0", "port1", "portstat"]),
    "bidib_send_lc_port_query": fixed("MSG_LC_PORT_QUERY", ["port0", "port1"]),
    "bidib_send_lc_port_query_all": fixed("MSG_LC_PORT_QUERY_ALL", ["query_params.select0", "query_params.select1", "query_params.range.start0",
                                                                     "query_params.range.start1", "query_params.range.end0", "query_params.range.end1"]),
    "bidib_send_lc_configx_set": {"type": "MSG_LC_CONFIGX_SET", "accept": "pairs_num >= 1 && pairs_num <= 8", "bufs": {"pairs": "(2u * pairs_num)"},
                                  "var": {"len": "2u + 2u * pairs_num", "segments": [("byte", "port0"), ("byte", "port1"), ("buf", "pairs", "(2u * pairs_num)")]}},
    "bidib_send_lc_configx_get": fixed("MSG_LC_CONFIGX_GET", ["port0", "port1"]),
    "bidib_send_lc_configx_get_all": fixed("MSG_LC_CONFIGX_GET_ALL", ["port0", "port1", "address_range.start0", "address_range.start1",
                                                                       "address_range.end0", "address_range.end1"]),
    "bidib_send_lc_macro_handle": fixed("MSG_LC_MACRO_HANDLE", ["macro_index", "opcode"], "opcode <= 1 || opcode >= 252"),
    "bidib_send_lc_macro_set": fixed("MSG_LC_MACRO_SET", ["macro_params.data%d" % i for i in range(6)]),
    "bidib_send_lc_macro_get": fixed("MSG_LC_MACRO_GET", ["macro_index", "point_index"]),
    "bidib_send_lc_macro_para_set": fixed("MSG_LC_MACRO_PARA_SET", ["macro_params.data%d" % i for i in range(6)]),
    "bidib_send_lc_macro_para_get": fixed("MSG_LC_MACRO_PARA_GET", ["macro_index", "param_index"]),
    # --- firmware
    "bidib_send_fw_update_op_enter": fixed("MSG_FW_UPDATE_OP", ["BIDIB_MSG_FW_UPDATE_OP_ENTER", "unique_id.class_id", "unique_id.class_id_ext", "unique_id.vendor_id",
                                                                "unique_id.product_id1", "unique_id.product_id2", "unique_id.product_id3", "unique_id.product_id4"]),
    "bidib_send_fw_update_op_exit": fixed("MSG_FW_UPDATE_OP", ["BIDIB_MSG_FW_UPDATE_OP_EXIT"]),
    "bidib_send_fw_update_op_setdest": fixed("MSG_FW_UPDATE_OP", ["BIDIB_MSG_FW_UPDATE_OP_SETDEST", "target_range"], "target_range <= 1"),
    # payload = opcode followed by the non-whitespace bytes of the line; 1 + 120 is the largest payload that keeps the length byte <= 127 at depth 3
    "bidib_send_fw_update_op_data": {"type": "MSG_FW_UPDATE_OP", "accept": "data_size <= 120", "bufs": {"data": "data_size"}, "filter_ws": True,
                                     "var": {"len": "1u + vp_nonws", "segments": [("byte", "BIDIB_MSG_FW_UPDATE_OP_DATA"), ("filtered", "data", "data_size")]}},
    "bidib_send_fw_update_op_done": fixed("MSG_FW_UPDATE_OP", ["BIDIB_MSG_FW_UPDATE_OP_DONE"]),
    # --- track
    "bidib_send_cs_allocate": fixed("MSG_CS_ALLOCATE", ["0x00"]),
    "bidib_send_cs_set_state": fixed("MSG_CS_SET_STATE", ["state"], "state <= 4 || state == 0x08 || state == 0x09 || state == 0x0D || state == 0xFF"),
    "bidib_send_cs_drive": fixed("MSG_CS_DRIVE", ["cs_drive_params.dcc_address.addrl", "cs_drive_params.dcc_address.addrh", "cs_drive_params.dcc_format",
                                                  "cs_drive_params.active", "cs_drive_params.speed", "cs_drive_params.function1", "cs_drive_params.function2",
                                                  "cs_drive_params.function3", "cs_drive_params.function4"],
                                 "(cs_drive_params.dcc_format == 0 || cs_drive_params.dcc_format == 2 || cs_drive_params.dcc_format == 3) && cs_drive_params.active <= 63 && cs_drive_params.function1 <= 31"),
    "bidib_send_cs_accessory": fixed("MSG_CS_ACCESSORY", ["cs_accessory_params.dcc_address.addrl", "cs_accessory_params.dcc_address.addrh",
                                                          "cs_accessory_params.data", "cs_accessory_params.time"]),
    "bidib_send_cs_pom": fixed("MSG_CS_POM", ["cs_pom_params.dcc_address.addrl", "cs_pom_params.dcc_address.addrh", "cs_pom_params.addrxl", "cs_pom_params.addrxh",
                                              "cs_pom_params.mid", "cs_pom_params.opcode", "cs_pom_params.cv_addrl", "cs_pom_params.cv_addrh", "cs_pom_params.cv_addrx",
                                              "cs_pom_params.data0", "cs_pom_params.data1", "cs_pom_params.data2", "cs_pom_params.data3"],
                               "cs_pom_params.opcode <= 3 || cs_pom_params.opcode == 0x43 || cs_pom_params.opcode == 0x47 || cs_pom_params.opcode == 0x80 || "
                               "cs_pom_params.opcode == 0x81 || cs_pom_params.opcode == 0x82 || cs_pom_params.opcode == 0x83 || cs_pom_params.opcode == 0x87 || "
                               "cs_pom_params.opcode == 0x8B || cs_pom_params.opcode == 0x8F"),
    "bidib_send_cs_bin_state": fixed("MSG_CS_BIN_STATE", ["bin_state_params.dcc_address.addrl", "bin_state_params.dcc_address.addrh", "bin_state_params.bin_numl",
                                                          "bin_state_params.bin_numh", "bin_state_params.data"], "bin_state_params.data <= 1"),
    "bidib_send_cs_prog": fixed("MSG_CS_PROG", ["cs_prog_params.opcode", "cs_prog_params.cv_addrl", "cs_prog_params.cv_addrh", "cs_prog_params.data"], "cs_prog_params.opcode <= 4"),
    "bidib_send_cs_rcplus_get_id": fixed("MSG_CS_RCPLUS", ["RC_GET_TID"]),
    "bidib_send_cs_rcplus_set_id": fixed("MSG_CS_RCPLUS", ["RC_SET_TID", "rcplus_tid.cid.mun_0", "rcplus_tid.cid.mun_1", "rcplus_tid.cid.mun_2", "rcplus_tid.cid.mun_3",
                                                           "rcplus_tid.cid.mid", "rcplus_tid.sid"]),
    "bidib_send_cs_rcplus_ping": fixed("MSG_CS_RCPLUS", ["RC_PING", "interval"]),
    "bidib_send_cs_rcplus_ping_once_p0": fixed("MSG_CS_RCPLUS", ["RC_PING_ONCE_P0"]),
    "bidib_send_cs_rcplus_ping_once_p1": fixed("MSG_CS_RCPLUS", ["RC_PING_ONCE_P1"]),
    "bidib_send_cs_rcplus_bind": fixed("MSG_CS_RCPLUS", ["RC_BIND", "rcplus_unique_id.mun_0", "rcplus_unique_id.mun_1", "rcplus_unique_id.mun_2", "rcplus_unique_id.mun_3",
                                                         "rcplus_unique_id.mid", "new_addrl", "new_addrh"]),
    "bidib_send_cs_rcplus_find_p0": fixed("MSG_CS_RCPLUS", ["RC_FIND_P0", "rcplus_unique_id.mun_0", "rcplus_unique_id.mun_1", "rcplus_unique_id.mun_2",
                                                            "rcplus_unique_id.mun_3", "rcplus_unique_id.mid"]),
    "bidib_send_cs_rcplus_find_p1": fixed("MSG_CS_RCPLUS", ["RC_FIND_P1", "rcplus_unique_id.mun_0", "rcplus_unique_id.mun_1", "rcplus_unique_id.mun_2",
                                                            "rcplus_unique_id.mun_3", "rcplus_unique_id.mid"]),
}
# complete-unwinding bounds: documented maximum of the length parameter + 2; the unwinding assertion proves that the
# range check of the function really caps the loop at that bound
UNWIND = {"bidib_send_vendor_set": 122, "bidib_send_vendor_get": 123, "bidib_send_string_set": 121, "bidib_send_bm_mirror_multiple": 18,
          "bidib_send_accessory_para_set_macromap": 18, "bidib_send_lc_configx_set": 18, "bidib_send_fw_update_op_data": 124}
# Loop contracts (the unbounded route) for the variable-length encoders.  W = vp_snd_watch is the watched payload index
# (nondeterministic, fixed before the call); header bytes are pinned with __CPROVER_loop_entry because the loop's frame is the
# whole VLA.  No quantifiers: "every payload byte" is "the byte at the arbitrary index W".
W = "vp_snd_watch"
LOOPS = {
    "bidib_send_vendor_get": [
        {"anchor": r"for \(int i = 0; i < name_length", "assigns": "i, __CPROVER_object_whole(data)", "decreases": "name_length - i",
         "invariants": "0 <= i && i <= name_length && data[0] == __CPROVER_loop_entry(data[0]) && "
                       "(!(%s >= 1 && %s <= i) || data[%s] == name[%s - 1])" % (W, W, W, W)}],
    "bidib_send_string_set": [
        {"anchor": r"for \(int i = 0; i < string_size", "assigns": "i, __CPROVER_object_whole(data)", "decreases": "string_size - i",
         "invariants": "0 <= i && i <= string_size && data[0] == __CPROVER_loop_entry(data[0]) && data[1] == __CPROVER_loop_entry(data[1]) && "
                       "data[2] == __CPROVER_loop_entry(data[2]) && (!(%s >= 3 && %s < 3 + i) || data[%s] == string[%s - 3])" % (W, W, W, W)}],
    "bidib_send_vendor_set": [
        {"anchor": r"for \(int i = 0; i < vendor_data.name_length", "assigns": "i, __CPROVER_object_whole(data)", "decreases": "vendor_data.name_length - i",
         "invariants": "0 <= i && i <= vendor_data.name_length && data[0] == __CPROVER_loop_entry(data[0]) && "
                       "(!(%s >= 1 && %s <= i) || data[%s] == vendor_data.name[%s - 1])" % (W, W, W, W)},
        {"anchor": r"for \(int i = 0; i < vendor_data.value_length", "assigns": "i, __CPROVER_object_whole(data)", "decreases": "vendor_data.value_length - i",
         "invariants": "0 <= i && i <= vendor_data.value_length && data[0] == __CPROVER_loop_entry(data[0]) && "
                       "data[vendor_data.name_length + 1] == __CPROVER_loop_entry(data[vendor_data.name_length + 1]) && "
                       "(!(%s >= 1 && %s <= vendor_data.name_length) || data[%s] == vendor_data.name[%s - 1]) && "
                       "(!(%s >= vendor_data.name_length + 2 && %s < vendor_data.name_length + 2 + i) || data[%s] == vendor_data.value[%s - vendor_data.name_length - 2])" % (
                           W, W, W, W, W, W, W, W)}],
    "bidib_send_bm_mirror_multiple": [
        {"anchor": r"for \(int i = 0; i < \(size / 8\)", "assigns": "i, __CPROVER_object_whole(data_array)", "decreases": "size / 8 - i",
         "invariants": "0 <= i && i <= size / 8 && data_array[0] == __CPROVER_loop_entry(data_array[0]) && data_array[1] == __CPROVER_loop_entry(data_array[1]) && "
                       "(!(%s >= 2 && %s < 2 + i) || data_array[%s] == data[%s - 2])" % (W, W, W, W)}],
    "bidib_send_accessory_para_set_macromap": [
        {"anchor": r"for \(int i = 0; i < data_size", "assigns": "i, __CPROVER_object_whole(data_array)", "decreases": "data_size - i",
         "invariants": "0 <= i && i <= data_size && data_array[0] == __CPROVER_loop_entry(data_array[0]) && data_array[1] == __CPROVER_loop_entry(data_array[1]) && "
                       "(!(%s >= 2 && %s < 2 + i) || data_array[%s] == data[%s - 2])" % (W, W, W, W)}],
    "bidib_send_lc_configx_set": [
        {"anchor": r"for \(int i = 0; i < pairs_num", "assigns": "i, __CPROVER_object_whole(data)", "decreases": "2 * pairs_num - i",
         "invariants": "0 <= i && i <= 2 * pairs_num && data[0] == __CPROVER_loop_entry(data[0]) && data[1] == __CPROVER_loop_entry(data[1]) && "
                       "(!(%s >= 2 && %s < 2 + i) || data[%s] == pairs[%s - 2])" % (W, W, W, W)}],
    # vp_cnt[k] (harness, prophecy): number of non-whitespace bytes among data[0..k); vp_in_pos: watched INPUT position
    "bidib_send_fw_update_op_data": [
        {"anchor": r"for \(int i = 0; i < data_size", "assigns": "i, array_index, __CPROVER_object_whole(data_array)", "decreases": "data_size - i",
         "invariants": "0 <= i && i <= data_size && array_index == 1 + vp_cnt[i] && data_array[0] == __CPROVER_loop_entry(data_array[0]) && "
                       "(!(vp_in_pos < i && vp_in_nonws) || data_array[1 + vp_cnt[vp_in_pos]] == data[vp_in_pos])"}],
}
# procedures named bidib_send_* that are not single-message constructors (handled elsewhere)
NOT_CONSTRUCTORS = {"bidib_send_sys_reset": "start-up procedure (C20)", "bidib_send_cs_drive_intern": "internal; covered through bidib_send_cs_drive",
                    "bidib_send_cs_accessory_intern": "internal; covered through bidib_send_cs_accessory"}
C19_ROWS = {"bidib_send_bm_mirror_multiple", "bidib_send_bm_mirror_occ", "bidib_send_bm_mirror_free", "bidib_send_msg_bm_mirror_position"}


SCALARS = {"uint8_t", "unsigned int", "int", "bool", "_Bool", "uint16_t", "uint32_t", "unsigned", "size_t"}


def harness(f, spec, rel):
    L = ['#include "vp_common.h"', '#include "vp_syslog.h"', '#include "%s"' % rel, '#include "send_contract.h"',
         "unsigned vp_cnt[132]; unsigned vp_in_pos; _Bool vp_in_nonws;", "", "void vp_harness(void) {"]
    params = f.param_list()
    args = []
    for decl, name in params:
        decl = re.sub(r"\bconst\b\s*(?=\w+$)", "", decl).replace("*const ", "*").replace("* const ", "*").replace("const ", "")
        L.append("\t%s;" % decl)
        typ = decl[:decl.rindex(name)].strip()
        if "*" in typ:
            pass  # buffer: allocated below
        elif typ in SCALARS:
            L.append("\tVP_IN(%s, %s);" % (typ, name))
        else:
            pass  # struct passed by value: left uninitialised = nondeterministic in every member
        args.append(name)
    L.append("\tvp_snd_count = 0; vp_snd_len = 0; vp_snd_type = 0; vp_snd_watch_val = 0;")
    L.append("\tunsigned in_watch; VP_IN(unsigned, in_watch);")
    L.append("\tvp_snd_watch = in_watch;")
    for bi, (ptr, ln) in enumerate(spec.get("bufs", {}).items()):
        L.append("\t%s = malloc(%s);" % (ptr, ln))
        L.append("\t__CPROVER_assume(%s != NULL);" % ptr)
        L.append("#ifdef VP_REPLAY")
        L.append("\tfor (unsigned k = 0; k < (unsigned)(%s); k++) %s[k] = (uint8_t)vp_replay_get(\"in_buf%d\", k);" % (ln, ptr, bi))
        L.append("#endif")
    if spec.get("filter_ws"):
        L.append("\tVP_IN(unsigned, vp_in_pos);")
        L.append("\t__CPROVER_assume(data_size <= 130);  /* larger sizes are rejected before the loop: covered by the reject obligations of a second instance below */")
        L.append("\tvp_cnt[0] = 0;")
        L.append("\tfor (unsigned k = 0; k < 130; k++) { _Bool nw = k < data_size && data[k] != 0x20 && data[k] != 0x09 && data[k] != 0x0D && data[k] != 0x0A; vp_cnt[k + 1] = vp_cnt[k] + (nw ? 1u : 0u); }")
        L.append("\tvp_in_nonws = vp_in_pos < data_size && data[vp_in_pos] != 0x20 && data[vp_in_pos] != 0x09 && data[vp_in_pos] != 0x0D && data[vp_in_pos] != 0x0A;")
        L.append("\tif (vp_in_nonws) { in_watch = 1u + vp_cnt[vp_in_pos]; vp_snd_watch = in_watch; }")
    L.append("\t%s(%s);" % (f.name, ", ".join(args)))
    L.append("\tVP_COVER(vp_snd_count == 1);")
    guard = spec.get("accept_guard")
    acc = spec["accept"]
    if guard:
        L.append("\t_Bool vp_acc = 0; if (%s) vp_acc = (%s);" % (guard, acc))
    else:
        L.append("\t_Bool vp_acc = (%s);" % acc)
    if acc != "1":
        L.append("\tVP_COVER(vp_snd_count == 0);")
    n = f.name
    L.append('\t__CPROVER_assert(vp_snd_count <= 1, "C18.%s.at_most_one_message");' % n)
    L.append('\t__CPROVER_assert(vp_acc || vp_snd_count == 0, "C18.%s.rejected_parameters_submit_nothing");' % n)
    L.append('\t__CPROVER_assert(!vp_acc || vp_snd_count == 1, "C18.%s.accepted_parameters_submit_one_message");' % n)
    L.append("\tif (vp_acc && vp_snd_count == 1) {")
    L.append('\t\t__CPROVER_assert(vp_snd_type == %s, "C18.%s.type_code");' % (spec["type"], n))
    if spec.get("broadcast") or not any(nm == A for _, nm in params):
        L.append('\t\t__CPROVER_assert(vp_snd_addr[0] == 0 && vp_snd_addr[1] == 0 && vp_snd_addr[2] == 0 && vp_snd_addr[3] == 0, "C18.%s.address");' % n)
    else:
        L.append('\t\t__CPROVER_assert(vp_snd_addr[0] == %s.top && vp_snd_addr[1] == %s.sub && vp_snd_addr[2] == %s.subsub && vp_snd_addr[3] == 0, "C18.%s.address");' % (A, A, A, n))
    if "data" in spec:
        d = spec["data"]
        L.append('\t\t__CPROVER_assert(vp_snd_len == %d, "C18.%s.data_length");' % (len(d), n))
        for i, e in enumerate(d):
            L.append('\t\tif (in_watch == %d) __CPROVER_assert(vp_snd_watch_val == (uint8_t)(%s), "C18.%s.data_byte_%d");' % (i, e, n, i))
    else:
        v = spec["var"]
        if spec.get("filter_ws"):
            L.append("\t\tunsigned vp_nonws = vp_cnt[data_size];")
        L.append('\t\t__CPROVER_assert(vp_snd_len == (%s), "C18.%s.data_length");' % (v["len"], n))
        off = "0u"
        for seg in v["segments"]:
            if seg[0] == "byte":
                L.append('\t\tif (in_watch == %s) __CPROVER_assert(vp_snd_watch_val == (uint8_t)(%s), "C18.%s.data_bytes");' % (off, seg[1], n))
                off = "%s + 1u" % off
            elif seg[0] == "buf":
                L.append('\t\tif (in_watch >= %s && in_watch < %s + %s) __CPROVER_assert(vp_snd_watch_val == %s[in_watch - (%s)], "C18.%s.data_bytes");' % (
                    off, off, seg[2], seg[1], off, n))
                off = "%s + %s" % (off, seg[2])
            elif seg[0] == "filtered":
                # the harness chose the watched OUTPUT index to be the image of the watched INPUT position
                L.append('\t\tif (vp_in_pos < data_size && vp_in_nonws) __CPROVER_assert(in_watch == 1u + vp_cnt[vp_in_pos] && vp_snd_watch_val == data[vp_in_pos], "C18.%s.data_bytes");' % n)
    L.append("\t}")
    L.append("}")
    L.append("#ifdef VP_REPLAY\nint main(void) { vp_harness(); printf(\"REPLAY-PASS\\n\"); return 0; }\n#endif")
    return "\n".join(L) + "\n"


def generate(prop, tier, workdir):
    os.makedirs(workdir, exist_ok=True)
    tree = csrc.Tree()
    units = []
    found = set()
    for f in tree.funcs.values():
        if "/lowlevel/" not in f.file or not f.name.startswith("bidib_send_") or f.static:
            continue
        if f.name in NOT_CONSTRUCTORS:
            continue
        if f.name not in TABLE:
            raise csrc.ExtractError("low-level send function %s has no row in the C18 oracle table" % f.name)
        found.add(f.name)
        if prop == "C19" and f.name not in C19_ROWS:
            continue
        spec = TABLE[f.name]
        rel = os.path.relpath(f.file, REPO)
        src = os.path.join(workdir, "c18_%s.c" % f.name)
        with open(src, "w") as fh:
            fh.write(harness(f, spec, rel))
        loops = {}
        for g in tree.by_file[f.file]:
            pass
        uw = {}
        # every loop of the function under proof and of the oracle is bounded by a uint8_t count <= 255 (+1)
        units.append(Unit(
            name="C18." + f.name, src=src, functions=[f.name] + (["bidib_send_cs_drive_intern"] if f.name == "bidib_send_cs_drive" else []) +
            (["bidib_send_cs_accessory_intern"] if f.name == "bidib_send_cs_accessory" else []),
            props=["C18"] + (["C19"] if f.name in C19_ROWS else []), no_dfcc=f.name not in LOOPS,
            loops=[dict(t, function=f.name) for t in LOOPS[f.name]] if f.name in LOOPS else None,
            unwindset={"vp_harness.0": 131} if spec.get("filter_ws") else {},
            remove_bodies=[g.name for g in tree.by_file[f.file] if g.name not in (f.name, "bidib_send_cs_drive_intern", "bidib_send_cs_accessory_intern")],
            unwind_reason="oracle prophecy loop of the harness only (constant trip count 130); the loop of the function under proof carries a loop contract" if spec.get("filter_ws") else "",
            stubbed_contracts=["bidib_buffer_message_with_data", "bidib_buffer_message_without_data"],
            timeout=300 if tier == "thorough" else 120, mem_gb=8, min_obligations=6, covers=1, replay=src,
            note="oracle row from include/lowlevel/*.h + BiDiB message reference; callee replaced by contracts/send_contract.h"))
    missing = set(TABLE) - found
    if missing:
        raise csrc.ExtractError("C18 oracle rows without a function in /repo: %s" % sorted(missing))
    return units
