/* C17 ("results are safe to free"): bidib_free_track_state releases exactly what bidib_get_state hands out - for every combination
 * of list lengths 0..2 per kind (the lengths are independent of each other): no free of a non-heap or dangling pointer, no double
 * free (CBMC pointer checks), and nothing is left allocated (CBMC --memory-leak-check).  The snapshot is built the way the nine
 * snapshot helpers build it (C17.snapshot_*): every id / aspect id / address list / function list its own heap object. */
#include "vp_common.h"
#include "vp_syslog.h"
#include <pthread.h>
#define pthread_mutex_lock(m) 0
#define pthread_mutex_unlock(m) 0
#define pthread_rwlock_rdlock(m) 0
#define pthread_rwlock_wrlock(m) 0
#define pthread_rwlock_unlock(m) 0
#include "src/highlevel/bidib_highlevel_getter.c"
#include "src/state/bidib_state_free.c"
#include "vp_glib.h"
gpointer vp_q_fresh(GQueue *q) { return NULL; }
void vp_q_pushed(GQueue *q, gpointer e) {}
void vp_q_popped(GQueue *q, gpointer e) {}
static char *hs(void) { char *p = malloc(2); __CPROVER_assume(p != NULL); p[0] = 'x'; p[1] = 0; return p; }
#define MK(T, field, cnt) do { size_t n_; __CPROVER_assume(n_ <= 2); ts.cnt = n_; ts.field = malloc(sizeof(T) * n_ + 1); __CPROVER_assume(ts.field != NULL); } while (0)
void vp_harness(void) {
	t_bidib_track_state ts;
	MK(t_bidib_board_accessory_state, points_board, points_board_count); MK(t_bidib_dcc_accessory_state, points_dcc, points_dcc_count);
	MK(t_bidib_board_accessory_state, signals_board, signals_board_count); MK(t_bidib_dcc_accessory_state, signals_dcc, signals_dcc_count);
	MK(t_bidib_peripheral_state, peripherals, peripherals_count); MK(t_bidib_segment_state, segments, segments_count); MK(t_bidib_reverser_state, reversers, reversers_count);
	MK(t_bidib_train_state, trains, trains_count); MK(t_bidib_booster_state, booster, booster_count); MK(t_bidib_track_output_state, track_outputs, track_outputs_count);
	for (size_t k = 0; k < 2; k++) {
		if (k < ts.points_board_count) { ts.points_board[k].id = hs(); ts.points_board[k].data.state_id = hs(); }
		if (k < ts.signals_board_count) { ts.signals_board[k].id = hs(); ts.signals_board[k].data.state_id = hs(); }
		if (k < ts.points_dcc_count) { ts.points_dcc[k].id = hs(); ts.points_dcc[k].data.state_id = hs(); }
		if (k < ts.signals_dcc_count) { ts.signals_dcc[k].id = hs(); ts.signals_dcc[k].data.state_id = hs(); }
		if (k < ts.peripherals_count) { ts.peripherals[k].id = hs(); ts.peripherals[k].data.state_id = hs(); }
		if (k < ts.reversers_count) { ts.reversers[k].id = hs(); ts.reversers[k].data.state_id = hs(); }
		if (k < ts.segments_count) { ts.segments[k].id = hs(); size_t na; __CPROVER_assume(na <= 2); ts.segments[k].data.dcc_address_cnt = na; ts.segments[k].data.dcc_addresses = malloc(sizeof(t_bidib_dcc_address) * na + 1); __CPROVER_assume(ts.segments[k].data.dcc_addresses != NULL); }
		if (k < ts.trains_count) { ts.trains[k].id = hs(); size_t nf; __CPROVER_assume(nf <= 2); ts.trains[k].data.peripheral_cnt = nf; ts.trains[k].data.peripherals = malloc(sizeof(t_bidib_train_peripheral_state) * nf + 1); __CPROVER_assume(ts.trains[k].data.peripherals != NULL);
			for (size_t j = 0; j < 2; j++) if (j < nf) ts.trains[k].data.peripherals[j].id = hs(); }
		if (k < ts.booster_count) ts.booster[k].id = hs();
		if (k < ts.track_outputs_count) ts.track_outputs[k].id = hs();
	}
	VP_COVER(ts.points_dcc_count == 2 && ts.signals_dcc_count == 0 && ts.trains_count == 2); VP_COVER(ts.points_dcc_count == 0 && ts.signals_dcc_count == 2);
	bidib_free_track_state(ts);
}
