from vpkg.core import Unit
from vpkg import csrc
_t = csrc.Tree()
_g = [f.name for f in _t.by_file[csrc.REPO + "/src/highlevel/bidib_highlevel_getter.c"]]
def _u(name, define, keep, **kw):
    return Unit(name="C17." + name, src="units/C17/getters.c", defines=[define], functions=keep, props=["C17"], no_dfcc=True,
                remove_bodies=[f for f in _g if f not in keep], extra_flags=["--nondet-static", "--unwind", "10"], covers=2, min_obligations=6, timeout=300,
                stubbed_contracts=["bidib_state_get_*_ref (lookup: NULL or an arbitrary element)", "strdup", "memcpy"],
                note="known / unknown / NULL id x arbitrary tracked state; result handed to its free function", **kw)
UNITS = [
    _u("peripheral_state", "VP_H_PERIPHERAL", ["bidib_get_peripheral_state", "bidib_free_peripheral_state_query"]),
    _u("reverser_state", "VP_H_REVERSER", ["bidib_get_reverser_state", "bidib_free_reverser_state_query"]),
    _u("booster_state", "VP_H_BOOSTER", ["bidib_get_booster_state"]),
    _u("track_output_state", "VP_H_TRACK_OUTPUT", ["bidib_get_track_output_state"]),
    _u("segment_state", "VP_H_SEGMENT", ["bidib_get_segment_state", "bidib_free_segment_state_query"]),
    _u("point_state", "VP_H_POINT", ["bidib_get_point_state", "bidib_free_unified_accessory_state_query"]),
    _u("signal_state", "VP_H_SIGNAL", ["bidib_get_signal_state", "bidib_free_unified_accessory_state_query"]),
    _u("train_state", "VP_H_TRAIN_STATE", ["bidib_get_train_state", "bidib_free_train_state_query"], kind="bounded", bound="train with at most 2 functions; loops unwound completely"),
    _u("train_scalars", "VP_H_TRAIN_SCALARS", ["bidib_get_train_on_track", "bidib_get_train_speed_step", "bidib_get_train_speed_kmh", "bidib_get_train_peripheral_state"], kind="bounded", bound="train with at most 2 functions (only bidib_get_train_peripheral_state has a loop)"),
] + [
    Unit(name="C17.snapshot_" + n, src="units/C17/snapshot.c", defines=[d], functions=keep, props=["C17"] + (["C08"] if n == "position" else []), no_dfcc=True,
         kind="bounded", bound="2 tracked entities (2 segments with <= 2 addresses each); loops unwound completely for that size",
         remove_bodies=[f for f in _g if f not in keep], extra_flags=["--nondet-static", "--unwind", "9"], covers=1, min_obligations=6, timeout=600,
         stubbed_contracts=["strdup", "memcpy", "bidib_state_get_train_ref", "bidib_state_get_train_state_ref"])
    for n, d, keep in [("boosters", "VP_H_BOOSTERS", ["bidib_get_state_boosters"]), ("segments", "VP_H_SEGMENTS", ["bidib_get_state_segments"]),
                       ("position", "VP_H_POSITION", ["bidib_get_train_position_intern", "bidib_free_train_position_query"]),
                       ("accessories_board", "VP_H_ACC_BOARD", ["bidib_get_state_accessories_board"]), ("accessories_dcc", "VP_H_ACC_DCC", ["bidib_get_state_accessories_dcc"]),
                       ("peripherals", "VP_H_PERIPHERALS", ["bidib_get_state_peripherals"]), ("reversers", "VP_H_REVERSERS", ["bidib_get_state_reversers"]),
                       ("track_outputs", "VP_H_TRACK_OUTPUTS", ["bidib_get_state_track_outputs"]), ("trains", "VP_H_TRAINS", ["bidib_get_state_trains"])]
] + [
    Unit(name="C17.free_track_state", src="units/C17/free_track.c", functions=["bidib_free_track_state"] + [f.name for f in _t.by_file[csrc.REPO + "/src/state/bidib_state_free.c"] if f.name.startswith("bidib_state_free_single_") and "board" != f.name[-5:] and not f.name.endswith("_train") and "intern" not in f.name and "initial" not in f.name],
         props=["C17"], no_dfcc=True, kind="bounded", bound="0..2 entities per kind, independently chosen; segments with 0..2 addresses, trains with 0..2 functions; loops unwound completely",
         remove_bodies=[f for f in _g if f != "bidib_free_track_state"] + ["bidib_state_free", "bidib_state_free_single_board", "bidib_state_free_single_train", "bidib_state_free_single_train_state_intern", "bidib_state_free_single_segment_state_intern"],
         extra_flags=["--nondet-static", "--unwind", "4", "--memory-leak-check"], covers=2, min_obligations=10, timeout=600,
         note="CBMC --memory-leak-check: nothing handed out by bidib_get_state stays allocated"),
]
