/* C17 (bounded stand-ins, 2 tracked entities each): the snapshot copy helpers of bidib_get_state and bidib_get_train_position_intern.
 * Every field of every copied entity equals the tracked one (a forgotten field is an arbitrary malloc'ed byte and fails), ids and
 * lists are independent copies.  Same strdup / memcpy contracts as getters.c. */
#include "vp_common.h"
#include "vp_syslog.h"
#include <pthread.h>
#define pthread_mutex_lock(m) 0
#define pthread_mutex_unlock(m) 0
#define pthread_rwlock_rdlock(m) 0
#define pthread_rwlock_wrlock(m) 0
#define pthread_rwlock_unlock(m) 0
char *vp_strdup(const char *s);
#define strdup(s) vp_strdup(s)
void *vp_memcpy_n(void *d, const void *s, size_t n);
#define memcpy(d, s, n) vp_memcpy_n((d), (s), (n))
#define static
#include "src/highlevel/bidib_highlevel_getter.c"
#undef static
#undef strdup
#undef memcpy
#include "vp_glib.h"
gpointer vp_q_fresh(GQueue *q) { return NULL; }
void vp_q_pushed(GQueue *q, gpointer e) {}
void vp_q_popped(GQueue *q, gpointer e) {}
#define MAXDUP 12
unsigned g_dups; const char *g_dup_src[MAXDUP]; char *g_dup_res[MAXDUP];
char *vp_strdup(const char *s) {
	__CPROVER_assert(s != NULL, "C17.strdup_of_non_null_string");
	char *p = malloc(2); __CPROVER_assume(p != NULL);
	if (g_dups < MAXDUP) { g_dup_src[g_dups] = s; g_dup_res[g_dups] = p; }
	g_dups++;
	return p;
}
_Bool copy_of(const char *res, const char *src) {
	for (unsigned k = 0; k < 8; k++) if (k < g_dups && g_dup_res[k] == res) return g_dup_src[k] == src;
	return 0;
}
_Bool copy_of_unknown(const char *res) {
	for (unsigned k = 0; k < 8; k++) if (k < g_dups && g_dup_res[k] == res) { const char *u = g_dup_src[k]; return u[0] == 'u' && u[1] == 'n' && u[2] == 'k' && u[6] == 'n' && u[7] == 0; }
	return 0;
}
size_t g_w; unsigned g_mcs; const void *g_mc_src[4]; size_t g_mc_n[4]; void *g_mc_dst[4];
void *vp_memcpy_n(void *d, const void *s, size_t n) {
	__CPROVER_assert(__CPROVER_w_ok(d, n) && __CPROVER_r_ok(s, n), "C17.memcpy_inside_both_objects");
	if (g_mcs < 4) { g_mc_src[g_mcs] = s; g_mc_n[g_mcs] = n; g_mc_dst[g_mcs] = d; }
	g_mcs++;
	if (g_w < n) ((uint8_t *)d)[g_w] = ((const uint8_t *)s)[g_w];
	return d;
}
#define B01(x) ((x) = (x) ? 1 : 0)
#define N 2
char g_id[N][2]; GString g_gs[N];
static void ids(void) { for (int k = 0; k < N; k++) { g_id[k][0] = 'a' + k; g_id[k][1] = 0; g_gs[k].str = g_id[k]; g_gs[k].len = 1; } }
t_bidib_train g_train; t_bidib_train_state_intern g_ts; _Bool g_tknown;
t_bidib_train_state_intern *bidib_state_get_train_state_ref(const char *train) { return g_tknown ? &g_ts : NULL; }
t_bidib_train *bidib_state_get_train_ref(const char *train) { return g_tknown ? &g_train : NULL; }

void vp_harness(void) {
	ids(); g_dups = 0; g_mcs = 0; VP_IN(size_t, g_w);
#if defined(VP_H_BOOSTERS)
	static t_bidib_booster_state src[N]; static vp_garray va; va.data = (gchar *)src; va.len = N; va.elt_size = sizeof src[0];
	for (int k = 0; k < N; k++) { src[k].id = g_id[k]; B01(src[k].data.voltage_known); B01(src[k].data.temp_known); B01(src[k].data.power_consumption.known); B01(src[k].data.power_consumption.overcurrent); }
	bidib_track_state.boosters = (GArray *)&va;
	t_bidib_booster_state *r = bidib_get_state_boosters();
	VP_COVER(1);
	for (int k = 0; k < N; k++) {
		__CPROVER_assert(copy_of(r[k].id, src[k].id), "C17.snapshot.boosters.id_is_an_independent_copy");
		__CPROVER_assert(r[k].data.power_state == src[k].data.power_state && r[k].data.power_state_simple == src[k].data.power_state_simple &&
			r[k].data.power_consumption.known == src[k].data.power_consumption.known && r[k].data.power_consumption.overcurrent == src[k].data.power_consumption.overcurrent &&
			r[k].data.power_consumption.current == src[k].data.power_consumption.current && r[k].data.voltage_known == src[k].data.voltage_known && r[k].data.voltage == src[k].data.voltage &&
			r[k].data.temp_celsius == src[k].data.temp_celsius, "C17.snapshot.boosters.every_field_equals_the_tracked_state");
		__CPROVER_assert(r[k].data.temp_known == src[k].data.temp_known, "C17.snapshot.boosters.temp_known_copied (same value as bidib_get_booster_state)");
	}
#elif defined(VP_H_SEGMENTS)
	static t_bidib_segment_state_intern src[N]; static vp_garray va; va.data = (gchar *)src; va.len = N; va.elt_size = sizeof src[0];
	static t_bidib_dcc_address st[N][2]; static vp_garray ad[N];
	for (int k = 0; k < N; k++) { guint n; __CPROVER_assume(n <= 2); ad[k].data = (gchar *)st[k]; ad[k].len = n; ad[k].elt_size = sizeof st[0][0]; src[k].dcc_addresses = (GArray *)&ad[k]; src[k].id = &g_gs[k];
		B01(src[k].occupied); B01(src[k].confidence.conf_void); B01(src[k].confidence.freeze); B01(src[k].confidence.nosignal); B01(src[k].power_consumption.known); B01(src[k].power_consumption.overcurrent); }
	bidib_track_state.segments = (GArray *)&va;
	t_bidib_segment_state *r = bidib_get_state_segments();
	VP_COVER(ad[0].len == 2 && !src[0].occupied);
	__CPROVER_assert(g_mcs == N, "C17.snapshot.segments.one_address_list_copy_per_segment");
	for (int k = 0; k < N; k++) {
		__CPROVER_assert(copy_of(r[k].id, g_id[k]), "C17.snapshot.segments.id_is_an_independent_copy");
		__CPROVER_assert(r[k].data.occupied == src[k].occupied && r[k].data.confidence.conf_void == src[k].confidence.conf_void && r[k].data.confidence.freeze == src[k].confidence.freeze &&
			r[k].data.confidence.nosignal == src[k].confidence.nosignal && r[k].data.power_consumption.known == src[k].power_consumption.known &&
			r[k].data.power_consumption.overcurrent == src[k].power_consumption.overcurrent && r[k].data.power_consumption.current == src[k].power_consumption.current &&
			r[k].data.dcc_address_cnt == ad[k].len, "C17.snapshot.segments.every_scalar_field_equals_the_tracked_state");
		__CPROVER_assert(g_mc_dst[k] == (void *)r[k].data.dcc_addresses && g_mc_src[k] == (void *)st[k] && g_mc_n[k] == ad[k].len * sizeof st[0][0],
		                 "C17.snapshot.segments.whole_address_list_copied_whatever_the_occupancy (same as bidib_get_segment_state)");
	}
#elif defined(VP_H_POSITION)
	static t_bidib_segment_state_intern src[N]; static vp_garray va; va.data = (gchar *)src; va.len = N; va.elt_size = sizeof src[0];
	static t_bidib_dcc_address st[N][2]; static vp_garray ad[N];
	unsigned want = 0;
	for (int k = 0; k < N; k++) { guint n; __CPROVER_assume(n <= 2); ad[k].data = (gchar *)st[k]; ad[k].len = n; ad[k].elt_size = sizeof st[0][0]; src[k].dcc_addresses = (GArray *)&ad[k]; src[k].id = &g_gs[k];
		for (guint j = 0; j < 2; j++) if (j < n && st[k][j].addrh == g_train.dcc_addr.addrh && st[k][j].addrl == g_train.dcc_addr.addrl) want++; }
	bidib_track_state.segments = (GArray *)&va;
	VP_IN(_Bool, g_tknown);
	t_bidib_train_position_query q = bidib_get_train_position_intern("t");
	VP_COVER(q.length == 3);
	VP_COVER(q.length == 0);
	__CPROVER_assert(q.length == (g_tknown ? want : 0), "C08.position.length_is_the_number_of_listings_of_the_trains_address");
	if (q.length > 0) {
		__CPROVER_assert(q.segments != NULL, "C17.position.list_allocated");
		for (unsigned k = 0; k < 4; k++) if (k < q.length) __CPROVER_assert(copy_of(q.segments[k], g_id[0]) || copy_of(q.segments[k], g_id[1]), "C17.position.every_entry_is_an_initialised_copy_of_a_segment_id");
	} else __CPROVER_assert(q.segments == NULL, "C17.position.no_list_when_not_on_track");
	bidib_free_train_position_query(q);
#elif defined(VP_H_ACC_BOARD) || defined(VP_H_ACC_DCC) || defined(VP_H_PERIPHERALS) || defined(VP_H_REVERSERS)
#if defined(VP_H_ACC_BOARD)
#define T t_bidib_board_accessory_state
#define CALL() bidib_get_state_accessories_board((GArray *)&va)
#define SCALARS(r, s) ((r).data.state_value == (s).data.state_value && (r).data.execution_state == (s).data.execution_state && (r).data.wait_details == (s).data.wait_details)
#elif defined(VP_H_ACC_DCC)
#define T t_bidib_dcc_accessory_state
#define CALL() bidib_get_state_accessories_dcc((GArray *)&va)
#define SCALARS(r, s) ((r).data.state_value == (s).data.state_value && (r).data.coil_on == (s).data.coil_on && (r).data.output_controls_timing == (s).data.output_controls_timing && (r).data.ack == (s).data.ack && (r).data.time_unit == (s).data.time_unit && (r).data.switch_time == (s).data.switch_time)
#elif defined(VP_H_PERIPHERALS)
#define T t_bidib_peripheral_state
#define CALL() (bidib_track_state.peripherals = (GArray *)&va, bidib_get_state_peripherals())
#define SCALARS(r, s) ((r).data.state_value == (s).data.state_value && (r).data.time_unit == (s).data.time_unit && (r).data.wait == (s).data.wait)
#else
#define T t_bidib_reverser_state
#define CALL() (bidib_track_state.reversers = (GArray *)&va, bidib_get_state_reversers())
#define SCALARS(r, s) ((r).data.state_value == (s).data.state_value)
#endif
	static T src[N]; static vp_garray va; va.data = (gchar *)src; va.len = N; va.elt_size = sizeof src[0]; static char sid[N][2];
	for (int k = 0; k < N; k++) { src[k].id = g_id[k]; _Bool has; sid[k][0] = 'z'; sid[k][1] = 0; src[k].data.state_id = has ? sid[k] : NULL; }
#if defined(VP_H_ACC_DCC)
	for (int k = 0; k < N; k++) { B01(src[k].data.coil_on); B01(src[k].data.output_controls_timing); }
#endif
	T *r = CALL();
	VP_COVER(src[0].data.state_id != NULL && src[1].data.state_id == NULL);
	for (int k = 0; k < N; k++) {
		__CPROVER_assert(copy_of(r[k].id, g_id[k]), "C17.snapshot.id_is_an_independent_copy");
		__CPROVER_assert(src[k].data.state_id != NULL ? copy_of(r[k].data.state_id, sid[k]) : copy_of_unknown(r[k].data.state_id), "C17.snapshot.state_id_is_an_independent_copy_of_the_tracked_aspect_or_of_unknown");
		__CPROVER_assert(SCALARS(r[k], src[k]), "C17.snapshot.every_scalar_field_equals_the_tracked_state");
		__CPROVER_assert(src[k].id == g_id[k] && src[k].data.state_id == (src[k].data.state_id ? sid[k] : NULL), "C17.snapshot.tracked_state_not_modified");
	}
#elif defined(VP_H_TRACK_OUTPUTS)
	static t_bidib_track_output_state src[N]; static vp_garray va; va.data = (gchar *)src; va.len = N; va.elt_size = sizeof src[0];
	for (int k = 0; k < N; k++) src[k].id = g_id[k];
	bidib_track_state.track_outputs = (GArray *)&va;
	t_bidib_track_output_state *r = bidib_get_state_track_outputs();
	VP_COVER(1);
	for (int k = 0; k < N; k++) __CPROVER_assert(copy_of(r[k].id, g_id[k]) && r[k].cs_state == src[k].cs_state, "C17.snapshot.track_outputs.id_copied_and_state_equal");
#elif defined(VP_H_TRAINS)
	static t_bidib_train_state_intern src[N]; static vp_garray va; va.data = (gchar *)src; va.len = N; va.elt_size = sizeof src[0];
	static t_bidib_train_peripheral_state ps[N][2]; static vp_garray vp[N]; static char pid[N][2][2];
	for (int k = 0; k < N; k++) { guint n; __CPROVER_assume(n <= 2); vp[k].data = (gchar *)ps[k]; vp[k].len = n; vp[k].elt_size = sizeof ps[0][0]; src[k].peripherals = (GArray *)&vp[k]; src[k].id = &g_gs[k];
		for (int j = 0; j < 2; j++) { pid[k][j][0] = 'p'; pid[k][j][1] = 0; ps[k][j].id = pid[k][j]; } B01(src[k].on_track); B01(src[k].set_is_forwards); }
	bidib_track_state.trains = (GArray *)&va;
	t_bidib_train_state *r = bidib_get_state_trains();
	VP_COVER(vp[0].len == 2 && vp[1].len == 0);
	for (int k = 0; k < N; k++) {
		__CPROVER_assert(copy_of(r[k].id, g_id[k]), "C17.snapshot.trains.id_is_an_independent_copy");
		__CPROVER_assert(r[k].data.on_track == src[k].on_track && r[k].data.orientation == src[k].orientation && r[k].data.set_speed_step == src[k].set_speed_step && r[k].data.set_is_forwards == src[k].set_is_forwards &&
		                 r[k].data.ack == src[k].ack && r[k].data.detected_kmh_speed == (int)src[k].detected_kmh_speed && r[k].data.peripheral_cnt == vp[k].len, "C17.snapshot.trains.every_scalar_field_equals_the_tracked_state");
		for (unsigned j = 0; j < 2; j++) if (j < vp[k].len) __CPROVER_assert(copy_of(r[k].data.peripherals[j].id, pid[k][j]) && r[k].data.peripherals[j].state == ps[k][j].state, "C17.snapshot.trains.every_function_copied_with_its_state");
	}
#endif
}
