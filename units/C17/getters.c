/* C17: single-entity getters + their free functions, for {known id, unknown id, NULL}.
 * The lookup is replaced by its contract ("NULL, or a valid element with arbitrary content").  CBMC gives every uninitialised
 * local and every malloc'ed byte an arbitrary value, so "every field of the result equals the source field (or its default)" fails
 * for a field the getter forgets to copy; the free function runs on the result under CBMC's free() model, so a free of a
 * non-heap / dangling pointer or a double free is a failed obligation.  strdup is replaced by a contract (fresh heap object,
 * source recorded) so that "independent deep copy made from the right string" is an assertion. */
#include "vp_common.h"
#include "vp_syslog.h"
#include <pthread.h>
#define pthread_mutex_lock(m) 0
#define pthread_mutex_unlock(m) 0
#define pthread_rwlock_rdlock(m) 0
#define pthread_rwlock_wrlock(m) 0
#define pthread_rwlock_unlock(m) 0
char *vp_strdup(const char *s);
#define strdup(s) vp_strdup(s)
void *vp_memcpy_n(void *d, const void *s, size_t n);
#define memcpy(d, s, n) vp_memcpy_n((d), (s), (n))
#include "src/highlevel/bidib_highlevel_getter.c"
#undef strdup
#undef memcpy
#include "vp_glib.h"
gpointer vp_q_fresh(GQueue *q) { return NULL; }
void vp_q_pushed(GQueue *q, gpointer e) {}
void vp_q_popped(GQueue *q, gpointer e) {}

#define MAXDUP 8
unsigned g_dups; const char *g_dup_src[MAXDUP]; char *g_dup_res[MAXDUP];
char *vp_strdup(const char *s) {
	__CPROVER_assert(s != NULL, "C17.strdup_of_non_null_string");
	char *p = malloc(2); __CPROVER_assume(p != NULL);
	if (g_dups < MAXDUP) { g_dup_src[g_dups] = s; g_dup_res[g_dups] = p; }
	g_dups++;
	return p;
}
static _Bool copy_of(const char *res, const char *src) {   /* res is a fresh copy made from src (src == NULL: from the literal "unknown") */
	for (unsigned k = 0; k < MAXDUP; k++) if (k < g_dups && g_dup_res[k] == res) return src != NULL ? g_dup_src[k] == src : (g_dup_src[k] != NULL);
	return 0;
}
size_t g_w; uint8_t g_mc_watch; const void *g_mc_src; size_t g_mc_n; unsigned g_mcs;
void *vp_memcpy_n(void *d, const void *s, size_t n) {
	__CPROVER_assert(__CPROVER_w_ok(d, n) && __CPROVER_r_ok(s, n), "C17.memcpy_inside_both_objects");
	g_mc_src = s; g_mc_n = n; g_mcs++;
	if (g_w < n) ((uint8_t *)d)[g_w] = ((const uint8_t *)s)[g_w];
	return d;
}

_Bool g_known; _Bool g_known2;
t_bidib_peripheral_state g_per; t_bidib_reverser_state g_rev; t_bidib_booster_state g_boo; t_bidib_track_output_state g_to;
t_bidib_segment_state_intern g_seg; t_bidib_board_accessory_state g_bacc; t_bidib_dcc_accessory_state g_dacc;
char g_sid[2] = "s";
t_bidib_peripheral_state *bidib_state_get_peripheral_state_ref(const char *peripheral) { return g_known ? &g_per : NULL; }
t_bidib_reverser_state *bidib_state_get_reverser_state_ref(const char *reverser) { return g_known ? &g_rev : NULL; }
t_bidib_booster_state *bidib_state_get_booster_state_ref(const char *booster) { return g_known ? &g_boo : NULL; }
t_bidib_track_output_state *bidib_state_get_track_output_state_ref(const char *track_output) { return g_known ? &g_to : NULL; }
t_bidib_segment_state_intern *bidib_state_get_segment_state_ref(const char *segment) { return g_known ? &g_seg : NULL; }
t_bidib_board_accessory_state *bidib_state_get_board_accessory_state_ref(const char *accessory, bool point) { return g_known ? &g_bacc : NULL; }
t_bidib_dcc_accessory_state *bidib_state_get_dcc_accessory_state_ref(const char *accessory, bool point) { return g_known2 ? &g_dacc : NULL; }

t_bidib_train_state_intern g_trs; static t_bidib_train_peripheral_state g_tps[2]; static vp_garray g_vtps; static char g_pid[2][2];
t_bidib_train_state_intern *bidib_state_get_train_state_ref(const char *train) { return g_known ? &g_trs : NULL; }
static void mk_train_state(void) {
	guint n; __CPROVER_assume(n <= 2); g_vtps.data = (gchar *)g_tps; g_vtps.len = n; g_vtps.elt_size = sizeof g_tps[0]; g_trs.peripherals = (GArray *)&g_vtps;
	for (int k = 0; k < 2; k++) { g_pid[k][0] = (char)(0x61 + k); g_pid[k][1] = 0; g_tps[k].id = g_pid[k]; }
	g_trs.on_track = g_trs.on_track ? 1 : 0; g_trs.set_is_forwards = g_trs.set_is_forwards ? 1 : 0;
}
#define ID_ARG (null_id ? NULL : "x")
#define B01(x) ((x) = (x) ? 1 : 0)

void vp_harness(void) {
	VP_IN(_Bool, g_known); VP_IN(_Bool, g_known2); VP_IN(size_t, g_w);
	_Bool null_id; _Bool has_sid;
	g_dups = 0; g_mcs = 0;
#if defined(VP_H_PERIPHERAL)
	g_per.data.state_id = has_sid ? g_sid : NULL;
	t_bidib_peripheral_state_query q = bidib_get_peripheral_state(ID_ARG);
	_Bool found = !null_id && g_known;
	VP_COVER(found); VP_COVER(!found);
	__CPROVER_assert(q.available == found, "C17.peripheral_state.available_iff_known_id");
	if (found) {
		__CPROVER_assert(q.data.state_value == g_per.data.state_value && q.data.time_unit == g_per.data.time_unit && q.data.wait == g_per.data.wait, "C17.peripheral_state.every_scalar_field_equals_the_tracked_state");
		__CPROVER_assert(copy_of(q.data.state_id, g_per.data.state_id), "C17.peripheral_state.state_id_is_an_independent_copy");
	}
	bidib_free_peripheral_state_query(q);   /* safe for known, unknown and NULL ids (CBMC free model) */
#elif defined(VP_H_REVERSER)
	g_rev.data.state_id = has_sid ? g_sid : NULL;
	t_bidib_reverser_state_query q = bidib_get_reverser_state(ID_ARG);
	_Bool found = !null_id && g_known;
	VP_COVER(found); VP_COVER(!found);
	__CPROVER_assert(q.available == found, "C17.reverser_state.available_iff_known_id");
	if (found) {
		__CPROVER_assert(q.data.state_value == g_rev.data.state_value, "C17.reverser_state.every_scalar_field_equals_the_tracked_state");
		__CPROVER_assert(copy_of(q.data.state_id, g_rev.data.state_id), "C17.reverser_state.state_id_is_an_independent_copy");
	}
	bidib_free_reverser_state_query(q);
#elif defined(VP_H_BOOSTER)
	B01(g_boo.data.voltage_known); B01(g_boo.data.temp_known); B01(g_boo.data.power_consumption.known); B01(g_boo.data.power_consumption.overcurrent);
	t_bidib_booster_state_query q = bidib_get_booster_state(ID_ARG);
	_Bool found = !null_id && g_known;
	VP_COVER(found); VP_COVER(!found);
	__CPROVER_assert(q.known == found, "C17.booster_state.known_iff_known_id");
	if (found) __CPROVER_assert(q.data.power_state == g_boo.data.power_state && q.data.power_state_simple == g_boo.data.power_state_simple &&
		q.data.power_consumption.known == g_boo.data.power_consumption.known && q.data.power_consumption.overcurrent == g_boo.data.power_consumption.overcurrent &&
		q.data.power_consumption.current == g_boo.data.power_consumption.current && q.data.voltage_known == g_boo.data.voltage_known && q.data.voltage == g_boo.data.voltage &&
		q.data.temp_known == g_boo.data.temp_known && q.data.temp_celsius == g_boo.data.temp_celsius, "C17.booster_state.every_field_equals_the_tracked_state");
#elif defined(VP_H_TRACK_OUTPUT)
	t_bidib_track_output_state_query q = bidib_get_track_output_state(ID_ARG);
	_Bool found = !null_id && g_known;
	VP_COVER(found); VP_COVER(!found);
	__CPROVER_assert(q.known == found, "C17.track_output_state.known_iff_known_id");
	if (found) __CPROVER_assert(q.cs_state == g_to.cs_state, "C17.track_output_state.every_field_equals_the_tracked_state");
#elif defined(VP_H_SEGMENT)
	static t_bidib_dcc_address store[4]; static vp_garray va; guint n; __CPROVER_assume(n <= 4);
	va.data = (gchar *)store; va.len = n; va.elt_size = sizeof store[0]; g_seg.dcc_addresses = (GArray *)&va;
	B01(g_seg.occupied); B01(g_seg.confidence.conf_void); B01(g_seg.confidence.freeze); B01(g_seg.confidence.nosignal); B01(g_seg.power_consumption.known); B01(g_seg.power_consumption.overcurrent);
	__CPROVER_assume(g_w < sizeof store);
	t_bidib_segment_state_query q = bidib_get_segment_state(ID_ARG);
	_Bool found = !null_id && g_known;
	VP_COVER(found && n == 4); VP_COVER(!found);
	__CPROVER_assert(q.known == found, "C17.segment_state.known_iff_known_id");
	if (found) {
		__CPROVER_assert(q.data.occupied == g_seg.occupied && q.data.confidence.conf_void == g_seg.confidence.conf_void && q.data.confidence.freeze == g_seg.confidence.freeze &&
			q.data.confidence.nosignal == g_seg.confidence.nosignal && q.data.power_consumption.known == g_seg.power_consumption.known &&
			q.data.power_consumption.overcurrent == g_seg.power_consumption.overcurrent && q.data.power_consumption.current == g_seg.power_consumption.current &&
			q.data.dcc_address_cnt == n, "C17.segment_state.every_scalar_field_equals_the_tracked_state");
		__CPROVER_assert(q.data.dcc_addresses != NULL && (void *)q.data.dcc_addresses != (void *)store && g_mcs == 1 && g_mc_src == (void *)store && g_mc_n == n * sizeof store[0],
		                 "C17.segment_state.address_list_is_an_independent_copy_of_the_whole_list");
		if (g_w < n * sizeof store[0]) __CPROVER_assert(((uint8_t *)q.data.dcc_addresses)[g_w] == ((uint8_t *)store)[g_w], "C17.segment_state.address_bytes_identical");
	} else __CPROVER_assert(q.data.dcc_addresses == NULL, "C17.segment_state.no_list_for_unknown_id");
	bidib_free_segment_state_query(q);
#elif defined(VP_H_POINT) || defined(VP_H_SIGNAL)
	g_bacc.data.state_id = has_sid ? g_sid : NULL; g_dacc.data.state_id = has_sid ? g_sid : NULL;
	B01(g_dacc.data.coil_on); B01(g_dacc.data.output_controls_timing);
#ifdef VP_H_POINT
	t_bidib_unified_accessory_state_query q = bidib_get_point_state(ID_ARG);
#else
	t_bidib_unified_accessory_state_query q = bidib_get_signal_state(ID_ARG);
#endif
	_Bool fb = !null_id && g_known, fd = !null_id && !g_known && g_known2;
	VP_COVER(fb); VP_COVER(fd); VP_COVER(!fb && !fd);
	__CPROVER_assert(q.known == (fb || fd), "C17.accessory_state.known_iff_known_id");
	if (fb) {
		__CPROVER_assert(q.type == BIDIB_ACCESSORY_BOARD && q.board_accessory_state.state_value == g_bacc.data.state_value && q.board_accessory_state.execution_state == g_bacc.data.execution_state &&
			q.board_accessory_state.wait_details == g_bacc.data.wait_details, "C17.accessory_state.board_accessory_fields_equal_the_tracked_state");
		__CPROVER_assert(copy_of(q.board_accessory_state.state_id, g_bacc.data.state_id), "C17.accessory_state.state_id_is_an_independent_copy");
	}
	if (fd) {
		__CPROVER_assert(q.type == BIDIB_ACCESSORY_DCC && q.dcc_accessory_state.state_value == g_dacc.data.state_value && q.dcc_accessory_state.time_unit == g_dacc.data.time_unit &&
			q.dcc_accessory_state.switch_time == g_dacc.data.switch_time, "C17.accessory_state.dcc_accessory_fields_equal_the_tracked_state");
		__CPROVER_assert(q.dcc_accessory_state.coil_on == g_dacc.data.coil_on && q.dcc_accessory_state.output_controls_timing == g_dacc.data.output_controls_timing &&
			q.dcc_accessory_state.ack == g_dacc.data.ack, "C17.accessory_state.dcc_fields_reported_by_the_snapshot_are_also_reported_by_the_single_getter (coil_on, output_controls_timing, ack)");
		__CPROVER_assert(copy_of(q.dcc_accessory_state.state_id, g_dacc.data.state_id), "C17.accessory_state.state_id_is_an_independent_copy");
	}
	bidib_free_unified_accessory_state_query(q);
#elif defined(VP_H_TRAIN_STATE)
	mk_train_state();
	t_bidib_train_state_query q = bidib_get_train_state(ID_ARG);
	_Bool hit = !null_id && g_known;
	VP_COVER(hit && g_vtps.len == 2); VP_COVER(!hit);
	__CPROVER_assert(q.known == hit, "C17.train_state.known_iff_the_train_is_tracked");
	if (hit) {
		__CPROVER_assert(q.data.on_track == g_trs.on_track && q.data.orientation == g_trs.orientation && q.data.set_speed_step == g_trs.set_speed_step && q.data.set_is_forwards == g_trs.set_is_forwards &&
		                 q.data.detected_kmh_speed == (int)g_trs.detected_kmh_speed && q.data.ack == g_trs.ack && q.data.peripheral_cnt == g_vtps.len, "C17.train_state.every_scalar_field_equals_the_tracked_state");
		for (unsigned k = 0; k < 2; k++) if (k < g_vtps.len) __CPROVER_assert(copy_of(q.data.peripherals[k].id, g_pid[k]) && q.data.peripherals[k].state == g_tps[k].state, "C17.train_state.every_function_is_copied_with_its_state_and_an_independent_id");
	} else __CPROVER_assert(q.data.peripherals == NULL, "C17.train_state.unknown_train_has_no_function_list_to_free");
	bidib_free_train_state_query(q);
#elif defined(VP_H_TRAIN_SCALARS)
	mk_train_state();
	_Bool hit = !null_id && g_known;
	VP_COVER(hit && g_trs.on_track); VP_COVER(hit && !g_trs.on_track); VP_COVER(!hit);
	__CPROVER_assert(bidib_get_train_on_track(ID_ARG) == (hit && g_trs.on_track), "C17.train_on_track.true_iff_tracked_and_on_track");
	t_bidib_train_speed_step_query s1 = bidib_get_train_speed_step(ID_ARG);
	__CPROVER_assert(s1.known_and_avail == (hit && g_trs.on_track) && (!s1.known_and_avail || (s1.speed_step == g_trs.set_speed_step && s1.is_forwards == g_trs.set_is_forwards)), "C17.train_speed_step.reports_the_tracked_step_and_direction_iff_on_track");
	t_bidib_train_speed_kmh_query s2 = bidib_get_train_speed_kmh(ID_ARG);
	__CPROVER_assert(s2.known_and_avail == (hit && g_trs.on_track) && (!s2.known_and_avail || s2.speed_kmh == (int)g_trs.detected_kmh_speed), "C17.train_speed_kmh.reports_the_detected_speed_iff_on_track");
	char fn[2]; __CPROVER_assume(fn[0] != 0); fn[1] = 0; _Bool null_fn;
	t_bidib_train_peripheral_state_query s3 = bidib_get_train_peripheral_state(ID_ARG, null_fn ? NULL : fn);
	int m = (!null_fn && g_vtps.len > 0 && fn[0] == g_pid[0][0]) ? 0 : (!null_fn && g_vtps.len > 1 && fn[0] == g_pid[1][0]) ? 1 : -1;
	__CPROVER_assert(s3.available == (hit && m >= 0) && (!s3.available || s3.state == g_tps[m].state), "C17.train_function_state.reports_the_state_of_the_named_function_iff_it_exists");
#endif
}
