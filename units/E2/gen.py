"""Engine E2 (DESIGN.md §4): generated lock-discipline units, one per function of /repo that touches a lock
directly or through a callee.

For function f:
  * the real body of f (the wrapper TU #include's the real .c file) and of the file-static helpers it calls;
    every pthread lock call in them is redirected to the ghost model of stubs/vp_locks.h at the real call site;
  * every other library callee g with a lock contract is replaced by that contract, generated from g's real
    prototype into one stub TU per run:
        assert   every lock documented "Shall only be called with ... acquired" for g is held        (C10)
        assert   no lock of rank >= the lowest lock g may acquire is held (other than required ones)  (C11 order)
        effect   result nondeterministic, lock vector unchanged (g is proved balanced in its own unit)
  * every remaining callee gets a nondeterministic body (data is abstracted completely);
  * every loop gets the generated loop contract  vp_held[k] == __CPROVER_loop_entry(vp_held[k])  (all 15 locks);
  * f is entered with an arbitrary lock vector that satisfies f's own contract (the same shape its callers are
    checked against), and must return with the vector it was entered with.
"""
import os, re, json, glob, subprocess
from vpkg.core import Unit, REPO, VERIF, base_cflags, run
from vpkg import csrc

SERVES = ["C11", "C10", "C13", "C12", "C01"]
RANK = {l: i for i, l in enumerate(csrc.LOCKS)}
INIT_ROOTS = ["bidib_state_init"]


def lock_contract(acq, docreq, flags, name):
    """(required-held set, must-be-free set, flag info or None) for calling `name` (flag-controlled lock excluded)."""
    req = set(docreq.get(name, (set(), ""))[0])
    a = set(acq.get(name, set()))
    fl = flags.get(name)
    if fl:
        a.discard(fl["lock"])
        req.discard(fl["lock"])
    free = set()
    if a:
        lo = min(RANK[l] for l in a)
        free = {l for l in csrc.LOCKS if RANK[l] >= lo and l not in req}
    return req, free, fl


def init_only(tree):
    """functions reachable (by call or as a callback argument) from bidib_state_init and from nowhere else."""
    callers = {}
    for f in tree.funcs.values():
        for c in f.calls + f.fnptr_refs:
            callers.setdefault(c, set()).add(f.name)
    reach, todo = set(), list(INIT_ROOTS)
    while todo:
        n = todo.pop()
        if n in reach:
            continue
        reach.add(n)
        f = tree.get(n)
        if f:
            todo += f.calls + f.fnptr_refs
    changed = True
    while changed:
        changed = False
        for n in list(reach):
            if n in INIT_ROOTS:
                continue
            if any(c not in reach for c in callers.get(n, ())):
                reach.discard(n)
                changed = True
    return reach


def static_closure(tree, f):
    """file-static helpers reachable from f through static helpers (kept with their real bodies)."""
    res, todo = [], [f]
    while todo:
        g = todo.pop()
        for c in g.calls:
            h = tree.get(c)
            if h and h.static and h.file == f.file and h.name != f.name and h not in res:
                res.append(h)
                if not stub_compiles_static(h):
                    todo.append(h)
    return res


def flag_cond(fl, rank):
    return fl["param"], rank[fl["lock"]]


def stub_compiles_static(g):
    """file-static helpers are stubbed like any other function (the wrapper TU drops the `static` keyword); their
    parameter types must be visible from the headers alone."""
    if LOCAL_TYPES is None:
        load_local_types()
    words = set(re.findall(r"[A-Za-z_]\w*", g.ret + " " + g.params))
    return not (words & LOCAL_TYPES)


LOCAL_TYPES = None


def load_local_types():
    global LOCAL_TYPES
    LOCAL_TYPES = set()
    for f in glob.glob(os.path.join(REPO, "src", "*", "*.c")):
        txt = csrc.strip_comments(open(f, errors="replace").read())
        LOCAL_TYPES |= set(re.findall(r"\}\s*([A-Za-z_]\w*)\s*;", txt))
        LOCAL_TYPES |= set(re.findall(r"^typedef\b[^;{]*?\b([A-Za-z_]\w*)\s*;", txt, re.M))
        LOCAL_TYPES |= set(re.findall(r"^(?:struct|enum|union)\s+([A-Za-z_]\w*)\s*\{", txt, re.M))


def public_api(repo=REPO):
    names = set()
    for h in glob.glob(os.path.join(repo, "include", "*.h")) + glob.glob(os.path.join(repo, "include", "*", "*.h")):
        txt = csrc.strip_comments(open(h, errors="replace").read())
        names |= set(re.findall(r"\b(bidib_\w+)\s*\(", txt))
    return names


def infer_requires(tree, docreq, flags, ts=None, gl=None, initset=()):
    """Lock preconditions of undocumented *internal, non-root* functions, derived from the code: such a function
    requires what its callees require and it does not acquire itself.  Roots (public API, thread entry points,
    functions without callers inside the library) always get the empty precondition, so a missing lock shows up as
    a failed obligation in the root's own unit.  Every derived precondition is an obligation at every call site."""
    api = public_api()
    called = set()
    for f in tree.funcs.values():
        called |= set(f.calls)
        called -= set()
    refs = set()
    for f in tree.funcs.values():
        refs |= set(f.fnptr_refs)
    roots = {f.name for f in tree.funcs.values() if f.name in api or f.name not in called or f.name in refs}
    inferred = {}
    augmented = set()
    changed = True
    while changed:
        changed = False
        for f in tree.funcs.values():
            if f.name in roots or f.name in initset:
                continue
            own = {l for (op, l, _) in f.lockops}
            if f.name in docreq and f.name not in inferred and f.name not in augmented:
                # documented contract: kept as written, plus the guards of the data the body touches directly
                extra = (direct_guards(f, ts, gl) - own - docreq[f.name][0]) if ts is not None else set()
                if f.name in flags:
                    extra.discard(flags[f.name]["lock"])
                if extra:
                    augmented.add(f.name)
                    docreq[f.name] = (docreq[f.name][0] | extra, docreq[f.name][1] + " + guards of the data it touches")
                    changed = True
                continue
            if f.name in augmented:
                continue
            need = set()
            for c in f.calls:
                if c == f.name:
                    continue
                r = set(docreq.get(c, (set(), ""))[0])
                if c in flags:
                    idx = [n for _, n in tree.get(c).param_list()].index(flags[c]["param"])
                    if any(len(a) > idx and a[idx] == "false" for a in tree.call_args(f, c)):
                        r.add(flags[c]["lock"])
                need |= r
            if ts is not None:
                need |= direct_guards(f, ts, gl)
            need -= own
            if f.name in flags:
                need.discard(flags[f.name]["lock"])
            old = inferred.get(f.name, set())
            if need - old:
                inferred[f.name] = old | need
                docreq[f.name] = (old | need, "derived from the requirements of its callees")
                changed = True
    return inferred, roots


def guard_tables(over):
    """(track_state member -> mutex) from the '// guarded by' comments, (global -> {lock, file}) from contracts/locks.json."""
    ts = {}
    for line in open(os.path.join(REPO, "src", "state", "bidib_state_intern.h"), errors="replace"):
        m = re.match(r"\s*GArray\s*\*\s*(\w+)\s*;\s*//\s*guarded by (\w+)", line)
        if m and m.group(2) in RANK:
            ts[m.group(1)] = m.group(2)
    if len(ts) < 5:
        raise csrc.ExtractError("cannot read the 'guarded by' comments of t_bidib_track_state_intern (found %d)" % len(ts))
    return ts, over.get("guarded_globals", {}).get("globals", {})


IMMUTABLE_READS = {}


def waived_locks(f):
    """locks whose guarded data f may read without holding them (contracts/locks.json immutable_part_reads); the waiver
    is void when f's body reads a field of an element outside the allowed immutable set."""
    w = IMMUTABLE_READS.get(f.name)
    if not w:
        return set()
    used = set(re.findall(r"\b%s\s*->\s*(\w+)" % re.escape(w["element_var"]), f.body))
    if not used <= set(w["allowed_fields"]):
        return set()
    return {w["lock"]}


def direct_guards(f, ts, gl):
    """locks guarding the data that f's body accesses textually."""
    return _direct_guards(f, ts, gl) - waived_locks(f)


def _direct_guards(f, ts, gl):
    need = set()
    rel = os.path.relpath(f.file, REPO)
    for m in re.finditer(r"\bbidib_track_state\s*\.\s*(\w+)", f.body):
        if m.group(1) in ts:
            need.add(ts[m.group(1)])
    for g, info in gl.items():
        if info["file"] in ("*", rel) and re.search(r"\b%s\b" % re.escape(g), f.body):
            need.add(info["lock"])
    return need


def instrumented_copy(tree, path, ts, gl, workdir):
    """Mechanical copy of one source file in which every textual access to guarded data carries an obligation:
       - one line `#include "e2_guards_<file>.h"` + `#line` is inserted after the last #include / guarded definition
         (before the first function); the header #defines each guarded global g of this file as
         (*({ assert(guard held); &g; })) - the rest of the file is byte-identical and keeps its line numbers;
       - `bidib_track_state.<member>` is rewritten to VP_TS(<member>) (same obligation, then the same member)."""
    rel = os.path.relpath(path, REPO)
    raw = open(path, errors="replace").read()
    stripped = csrc.strip_comments(raw)
    mine = {g: i for g, i in gl.items() if i["file"] in ("*", rel) and re.search(r"\b%s\b" % re.escape(g), stripped)}
    lines = raw.split("\n")
    sl = stripped.split("\n")
    ins = 0
    for n, l in enumerate(sl):
        if re.match(r"\s*#\s*include\b", l):
            ins = max(ins, n + 1)
        for g in mine:
            if re.match(r"^(?:static\s+|volatile\s+|extern\s+|const\s+)*[A-Za-z_][\w\s\*]*\b%s\b\s*(\[[^\]]*\])?\s*(=[^;]*)?;" % re.escape(g), l):
                ins = max(ins, n + 1)
    first_fn = min([f.line for f in tree.by_file[path]] or [len(lines)])
    if ins >= first_fn:
        raise csrc.ExtractError("%s: guarded data is declared after the first function definition" % rel)
    base = os.path.basename(path)[:-2]
    hdr = os.path.join(workdir, "e2_guards_%s.h" % base)
    H = ["/* generated: access obligations for the guarded data visible in %s */" % rel, "extern _Bool vp_init_phase;"]
    for m, l in sorted(ts.items()):
        H.append("#define VP_TSG_%s %d" % (m, RANK[l]))
        H.append('#define VP_TSN_%s "%s"' % (m, l))
    H.append('#define VP_TS(m) (*({ __CPROVER_assert(vp_init_phase || vp_waived[VP_TSG_##m] || vp_held[VP_TSG_##m] != 0, "C10.guarded_access: bidib_track_state." #m " touched without " VP_TSN_##m); &bidib_track_state; })).m')
    for g, i in sorted(mine.items()):
        H.append('#define %s (*({ __CPROVER_assert(vp_init_phase || vp_waived[%d] || vp_held[%d] != 0, "C10.guarded_access: %s touched without %s"); &%s; }))' % (g, RANK[i["lock"]], RANK[i["lock"]], g, i["lock"], g))
    with open(hdr, "w") as fh:
        fh.write("\n".join(H) + "\n")
    body = "\n".join(lines[ins:])
    # rewrite only outside comments/strings: positions taken from the stripped text
    sbody = "\n".join(sl[ins:])
    out, pos = [], 0
    for m in re.finditer(r"\bbidib_track_state\s*\.\s*(\w+)", sbody):
        if m.group(1) not in ts:
            raise csrc.ExtractError("%s: bidib_track_state.%s has no 'guarded by' comment" % (rel, m.group(1)))
        out.append(body[pos:m.start()])
        out.append("VP_TS(%s)" % m.group(1))
        pos = m.end()
    out.append(body[pos:])
    # the copy lives in a mirror of src/<dir>/ whose headers are symlinks to the real ones, so that the file's relative
    # #include "x.h" / "../state/y.h" lines resolve exactly as in /repo
    mirror = os.path.join(workdir, "e2src", "src")
    if not os.path.lexists(os.path.join(workdir, "e2src", "include")):
        os.makedirs(os.path.join(workdir, "e2src"), exist_ok=True)
        os.symlink(os.path.join(REPO, "include"), os.path.join(workdir, "e2src", "include"))
    for d in sorted(glob.glob(os.path.join(REPO, "src", "*"))):
        md = os.path.join(mirror, os.path.basename(d))
        if os.path.isdir(d) and not os.path.isdir(md):
            os.makedirs(md)
            for h in glob.glob(os.path.join(d, "*.h")):
                os.symlink(h, os.path.join(md, os.path.basename(h)))
    dst = os.path.join(mirror, os.path.basename(os.path.dirname(path)), os.path.basename(path))
    with open(dst, "w") as fh:
        fh.write("\n".join(lines[:ins]) + "\n#include \"%s\"\n#line %d \"%s\"\n" % (hdr, ins + 1, path) + "".join(out))
    return dst


def may_wait(tree):
    """functions that (transitively) contain a wait point: a textual usleep call."""
    w = {f.name for f in tree.funcs.values() if re.search(r"\busleep\s*\(", f.body)}
    changed = True
    while changed:
        changed = False
        for f in tree.funcs.values():
            if f.name not in w and any(c in w for c in f.calls):
                w.add(f.name)
                changed = True
    return w


def all_headers():
    return sorted(glob.glob(os.path.join(REPO, "include", "*.h")) + glob.glob(os.path.join(REPO, "include", "*", "*.h")) +
                  glob.glob(os.path.join(REPO, "src", "*", "*.h")))


def write_stub_tu(tree, acq, docreq, flags, workdir, atomic=None, waits=()):
    """one TU with a contract stub for every function that has a lock contract."""
    areads = {v["read"] for v in (atomic or {}).values()}
    awrites = {v["write"] for v in (atomic or {}).values()}
    hdrs = all_headers()
    L = ['#include "vp_common.h"', '#include "vp_locks.h"', "#include <glib.h>", "#include <yaml.h>"]
    L += ['#include "%s"' % os.path.relpath(h, REPO) for h in hdrs]
    L.append("extern _Bool vp_init_phase;")
    names = []
    for key, g in sorted(tree.funcs.items()):
        req, free, fl = lock_contract(acq, docreq, flags, g.name)
        if not (req or free or fl or g.name in areads or g.name in awrites or g.name in waits):
            continue
        if g.static and not stub_compiles_static(g):
            continue
        names.append(g.name)
        L.append("%s %s(%s) {" % (g.ret, g.name, g.params or "void"))
        for l in sorted(req, key=RANK.get):
            L.append('\t__CPROVER_assert(vp_init_phase || vp_held[%d] != 0, "C10.requires_held: call of %s needs %s held (documented at %s)");' % (
                RANK[l], g.name, l, docreq[g.name][1]))
        for l in sorted(free, key=RANK.get):
            L.append('\t__CPROVER_assert(vp_held[%d] == 0, "C11.lock_order: call of %s (may acquire %s) while %s is held");' % (
                RANK[l], g.name, ",".join(sorted(acq[g.name] - ({fl["lock"]} if fl else set()), key=RANK.get)), l))
        if fl:
            i = RANK[fl["lock"]]
            L.append("\tif (%s) {" % fl["param"])
            for l in csrc.LOCKS:
                if RANK[l] >= i and l not in req:
                    L.append('\t\t__CPROVER_assert(vp_held[%d] == 0, "C11.lock_order: call of %s with %s=true (acquires %s) while %s is held");' % (
                        RANK[l], g.name, fl["param"], fl["lock"], l))
            L.append("\t} else {")
            L.append('\t\t__CPROVER_assert(vp_init_phase || vp_held[%d] != 0, "C10.requires_held: call of %s with %s=false needs %s held (%s)");' % (
                i, g.name, fl["param"], fl["lock"], fl["source"].split(" ")[0]))
            L.append("\t}")
        if g.name in waits:
            for l in csrc.LOCKS:
                if l not in req:
                    L.append('\t__CPROVER_assert(vp_held[%d] == 0, "C11.wait_without_locks: call of %s (polls / sleeps until another thread makes progress) while holding %s");' % (RANK[l], g.name, l))
        if g.name in areads:
            L.append('\tif (vp_rmw_lock >= 0) { __CPROVER_assert(vp_held[vp_rmw_lock] == -1, "C10.atomic_section: %s (the read of a read-modify-write) is called without the exclusive lock that makes the section atomic"); vp_rmw_open = 1; vp_rmw_broken = 0; }' % g.name)
        if g.name in awrites:
            L.append('\tif (vp_rmw_lock >= 0 && vp_rmw_open) { __CPROVER_assert(!vp_rmw_broken && vp_held[vp_rmw_lock] == -1, "C10.atomic_section: %s (the write of a read-modify-write) is reached after the exclusive lock was released since the read"); vp_rmw_open = 0; }' % g.name)
        if g.ret.strip() != "void":
            L.append("\t%s vp_r; return vp_r;" % g.ret)
        L.append("}")
    src = os.path.join(workdir, "e2_stubs.c")
    with open(src, "w") as fh:
        fh.write("\n".join(L) + "\n")
    obj = os.path.join(workdir, "e2_stubs.gb")
    rc, _ = run(["goto-cc", "-c"] + base_cflags() + [src, "-o", obj], os.path.join(workdir, "e2_stubs.log"), timeout=300)
    if rc != 0:
        raise csrc.ExtractError("contract stub TU does not compile: " + open(os.path.join(workdir, "e2_stubs.log")).read()[-1500:])
    return obj, names


def generate(prop, tier, workdir):
    os.makedirs(workdir, exist_ok=True)
    tree = csrc.Tree()
    over = json.load(open(os.path.join(VERIF, "contracts", "locks.json")))
    flags = over.get("flag_contracts", {})
    acq = tree.acquires(flags)
    docreq = csrc.documented_requires()
    for k, v in over.get("requires_held", {}).items():
        docreq[k] = (set(v["locks"]), v["source"])
    for f in tree.files:
        if re.search(r"^[ \t]+static\b", csrc.strip_comments(open(f, errors="replace").read()), re.M):
            raise csrc.ExtractError("function-local static in %s: the E2 wrapper drops the `static` keyword and would change its meaning" % f)
    ts, gl = guard_tables(over)
    IMMUTABLE_READS.clear()
    IMMUTABLE_READS.update(over.get("guarded_globals", {}).get("immutable_part_reads", {}))
    single = over.get("guarded_globals", {}).get("single_threaded", {})
    INIT_ROOTS[:] = ["bidib_state_init"] + sorted(single)
    initset = init_only(tree) | set(single)
    inferred, roots = infer_requires(tree, docreq, flags, ts, gl, initset)
    copies = {}

    def copy_of(path):
        if path not in copies:
            copies[path] = instrumented_copy(tree, path, ts, gl, workdir)
        return copies[path]
    atomic = over.get("atomic_sections", {})
    waits = may_wait(tree)
    stub_obj, stubbed = write_stub_tu(tree, acq, docreq, flags, workdir, over.get("atomic_sections", {}), waits)
    stubbed = set(stubbed)
    units = []
    inv = " && ".join("vp_held[%d] == __CPROVER_loop_entry(vp_held[%d])" % (i, i) for i in range(len(csrc.LOCKS)))
    for key, f in sorted(tree.funcs.items()):
        if f.name in over.get("skip", {}):
            continue
        inl = [g for g in static_closure(tree, f) if not stub_compiles_static(g)]
        callees = []
        for g in [f] + inl:
            for c in g.calls:
                h = tree.get(c)
                if h and h is not f and h not in inl and c not in callees:
                    callees.append(c)
        contracted = [c for c in callees if c in stubbed]
        has_ops = any(g.lockops for g in [f] + inl)
        if not has_ops and not contracted and f.name not in docreq:
            continue
        rel = os.path.relpath(f.file, REPO)
        base = "e2_%s.c" % f.name
        req_f, free_f, fl_f = lock_contract(acq, docreq, flags, f.name)
        L = ['#include "vp_common.h"', '#include "vp_locks.h"', "#include <glib.h>", "#include <yaml.h>"] + \
            ['#include "%s"' % os.path.relpath(h, REPO) for h in all_headers()] + \
            ["#define static /* file-local linkage dropped: helpers are replaced by their contracts like any callee */",
             "#include <unistd.h>", "#define usleep(x) VP_WAIT_POINT() /* a timed wait for another thread's progress: see stubs/vp_locks.h */"] + \
            ([] if any(g.name == "syslog_libbidib" for g in tree.by_file[f.file]) else
             ["#define syslog_libbidib(...) ((void)0) /* logging dropped: no effect on locks; keeps the object count low */"]) + \
            ['#include "%s"' % copy_of(f.file), "#undef static", "_Bool vp_init_phase;", "", "void vp_harness(void) {",
             "\tint vp_e[VP_NLOCKS];", "\tvp_init_phase = %d;" % (1 if f.name in initset else 0),
             "\tvp_rmw_lock = %d; vp_rmw_open = 0; vp_rmw_broken = 0;" % (RANK[atomic[f.name]["lock"]] if f.name in atomic else -1),
             "\t" + " ".join("vp_waived[%d] = %d;" % (RANK[l], 1 if l in waived_locks(f) else 0) for l in csrc.LOCKS)]
        args = []
        for decl, name in f.param_list():
            L.append("\t%s;" % decl)
            args.append(name)
        for i, l in enumerate(csrc.LOCKS):
            L.append("\t{ int v; vp_held[%d] = v; }" % i)
            shared = " || (vp_held[%d] >= 1 && vp_held[%d] <= 2)" % (i, i) if l in csrc.RWLOCKS else ""
            anyst = "vp_held[%d] == 0 || vp_held[%d] == -1%s" % (i, i, " || vp_held[%d] == 1" % i if l in csrc.RWLOCKS else "")
            if fl_f and fl_f["lock"] == l:
                L.append("\t__CPROVER_assume(%s ? vp_held[%d] == 0 : (vp_held[%d] == -1%s));" % (fl_f["param"], i, i, shared))
            elif l in req_f:
                L.append("\t__CPROVER_assume(vp_held[%d] == -1%s);" % (i, shared))
            elif l in free_f or (fl_f and RANK[l] > RANK[fl_f["lock"]]):
                if fl_f and l not in free_f:
                    L.append("\t__CPROVER_assume(!%s || vp_held[%d] == 0);" % (fl_f["param"], i))
                    L.append("\t__CPROVER_assume(%s);" % anyst)
                else:
                    L.append("\t__CPROVER_assume(vp_held[%d] == 0);" % i)
            elif f.name in waits:
                L.append("\t__CPROVER_assume(vp_held[%d] == 0); /* may wait for another thread: callers hold nothing (obligation at every call site) */" % i)
            else:
                L.append("\t__CPROVER_assume(%s);" % anyst)
            L.append("\tvp_e[%d] = vp_held[%d];" % (i, i))
        call = "%s(%s);" % (f.name, ", ".join(args))
        if f.ret.strip() != "void":
            call = "(void)" + call
        L.append("\t" + call)
        L.append("\tVP_COVER(1);")
        for i, l in enumerate(csrc.LOCKS):
            L.append('\t__CPROVER_assert(vp_held[%d] == vp_e[%d], "C11.balanced_at_return: %s returns with %s in the state it was entered with");' % (i, i, f.name, l))
        L.append("}")
        src = os.path.join(workdir, base)
        with open(src, "w") as fh:
            fh.write("\n".join(L) + "\n")
        keep = {f.name} | {g.name for g in inl}
        others = [g.name for g in tree.by_file[f.file] if g.name not in keep]
        props = ["C11", "C10"]
        if "/parser/" in f.file or f.file.endswith("/bidib_state.c") or f.file.endswith("/bidib_state_free.c") or f.name in initset or \
                f.name in ("bidib_start_pointer", "bidib_start_serial", "bidib_state_init", "bidib_stop", "bidib_state_reset_train_params", "bidib_state_free"):
            props.append("C13")
        if prop == "C13" and "C13" not in props:
            continue
        if prop == "C01":
            # "exactly once, never dropped, under every interleaving of senders and flushes": the send buffer is only touched under its mutex
            if not f.file.endswith("bidib_transmission_send.c"):
                continue
            props.append("C01")
        if prop == "C12":
            # "cannot stop processing subsequent packets": the functions that run on the receiver thread
            if not (f.file.endswith("bidib_state_setter.c") or f.file.endswith("bidib_transmission_receive.c") or f.file.endswith("bidib_transmission_node_states.c")):
                continue
            props.append("C12")
        # C10 ("may call concurrently ... without data races"): every unit - requires-held at call sites, guarded data
        # touched under its lock, atomic sections, and the lock order/balance without which concurrent calls block forever
        bnd = over.get("bounded_units", {}).get(f.name)
        if bnd:
            units.append(Unit(
                name="E2." + f.name, src=src, functions=[f.name], props=props, no_dfcc=True, kind="bounded",
                bound="loops unwound %d times without unwinding assertions; reason: %s" % (bnd["unwind"], bnd["reason"]),
                remove_bodies=others, link_objs=[(stub_obj, sorted(keep & stubbed))], stub_builtins=True, std_checks=False,
                timeout=300, mem_gb=12, extra_flags=["--unwind", str(bnd["unwind"]), "--nondet-static"],
                only_re=r"C1[01]\.", prop_filter={"C10": r"C1[01]\.", "C11": r"C11\.", "C13": r"C11\."},
                min_obligations=15, covers=1, note="bounded stand-in of the lock-discipline unit"))
            continue
        units.append(Unit(
            name="E2." + f.name, src=src, functions=[f.name] + [g.name for g in inl], props=props, no_dfcc=False,
            loops=[{"function": g.name, "all": True, "invariants": inv + (" && vp_rmw_open == 0" if f.name in atomic else ""), "optional": True} for g in [f] + inl],
            remove_bodies=others, link_objs=[(stub_obj, sorted(keep & stubbed))],
            stub_builtins=True, std_checks=False, timeout=600, mem_gb=12, object_bits=8,
            only_re=r"C1[01]\.|loop_invariant_(base|step)",
            prop_filter={"C01": r"C1[01]\.|loop_invariant", "C10": r"C1[01]\.|loop_invariant", "C11": r"C11\.|loop_invariant", "C13": r"C11\.|loop_invariant", "C12": r"C11\.|loop_invariant"},
            min_obligations=15, covers=1, internal_is_property=True, stubbed_contracts=contracted,
            note="lock-discipline unit (E2): data fully abstracted (nondeterministic callee results and pointers; DFCC frame "
                 "checks on abstracted data are not obligations of this unit); tracked: the 15-lock ghost vector. "
                 "entry: required-held=%s must-be-free=%s%s; callees replaced by generated lock contract: %s%s" % (
                     sorted(req_f), sorted(free_f), " flag-controlled=%s" % fl_f["lock"] if fl_f else "",
                     ",".join(contracted) or "-", "; init phase (requires-held waived)" if f.name in initset else "") +
                 ("; precondition derived from callees' requirements (checked at every call site)" if f.name in inferred else "")))
    return units
