"""Engine E2 (DESIGN.md §4): generated lock-discipline units, one per function of /repo that touches a lock
directly or through a callee.

For function f:
  * the real body of f (the wrapper TU #include's the real .c file) and of the file-static helpers it calls;
    every pthread lock call in them is redirected to the ghost model of stubs/vp_locks.h at the real call site;
  * every other library callee g with a lock contract is replaced by that contract, generated from g's real
    prototype into one stub TU per run:
        assert   every lock documented "Shall only be called with ... acquired" for g is held        (C10)
        assert   no lock of rank >= the lowest lock g may acquire is held (other than required ones)  (C11 order)
        effect   result nondeterministic, lock vector unchanged (g is proved balanced in its own unit)
  * every remaining callee gets a nondeterministic body (data is abstracted completely);
  * every loop gets the generated loop contract  vp_held[k] == __CPROVER_loop_entry(vp_held[k])  (all 15 locks);
  * f is entered with an arbitrary lock vector that satisfies f's own contract (the same shape its callers are
    checked against), and must return with the vector it was entered with.
"""
import os, re, json, glob, subprocess
from vpkg.core import Unit, REPO, VERIF, base_cflags, run
from vpkg import csrc

SERVES = ["C11", "C10", "C13", "C12"]
RANK = {l: i for i, l in enumerate(csrc.LOCKS)}
INIT_ROOTS = ["bidib_state_init"]


def lock_contract(acq, docreq, flags, name):
    """(required-held set, must-be-free set, flag info or None) for calling `name` (flag-controlled lock excluded)."""
    req = set(docreq.get(name, (set(), ""))[0])
    a = set(acq.get(name, set()))
    fl = flags.get(name)
    if fl:
        a.discard(fl["lock"])
        req.discard(fl["lock"])
    free = set()
    if a:
        lo = min(RANK[l] for l in a)
        free = {l for l in csrc.LOCKS if RANK[l] >= lo and l not in req}
    return req, free, fl


def init_only(tree):
    """functions reachable (by call or as a callback argument) from bidib_state_init and from nowhere else."""
    callers = {}
    for f in tree.funcs.values():
        for c in f.calls + f.fnptr_refs:
            callers.setdefault(c, set()).add(f.name)
    reach, todo = set(), list(INIT_ROOTS)
    while todo:
        n = todo.pop()
        if n in reach:
            continue
        reach.add(n)
        f = tree.get(n)
        if f:
            todo += f.calls + f.fnptr_refs
    changed = True
    while changed:
        changed = False
        for n in list(reach):
            if n in INIT_ROOTS:
                continue
            if any(c not in reach for c in callers.get(n, ())):
                reach.discard(n)
                changed = True
    return reach


def static_closure(tree, f):
    """file-static helpers reachable from f through static helpers (kept with their real bodies)."""
    res, todo = [], [f]
    while todo:
        g = todo.pop()
        for c in g.calls:
            h = tree.get(c)
            if h and h.static and h.file == f.file and h.name != f.name and h not in res:
                res.append(h)
                if not stub_compiles_static(h):
                    todo.append(h)
    return res


def flag_cond(fl, rank):
    return fl["param"], rank[fl["lock"]]


def stub_compiles_static(g):
    """file-static helpers are stubbed like any other function (the wrapper TU drops the `static` keyword); their
    parameter types must be visible from the headers alone."""
    if LOCAL_TYPES is None:
        load_local_types()
    words = set(re.findall(r"[A-Za-z_]\w*", g.ret + " " + g.params))
    return not (words & LOCAL_TYPES)


LOCAL_TYPES = None


def load_local_types():
    global LOCAL_TYPES
    LOCAL_TYPES = set()
    for f in glob.glob(os.path.join(REPO, "src", "*", "*.c")):
        txt = csrc.strip_comments(open(f, errors="replace").read())
        LOCAL_TYPES |= set(re.findall(r"\}\s*([A-Za-z_]\w*)\s*;", txt))
        LOCAL_TYPES |= set(re.findall(r"^typedef\b[^;{]*?\b([A-Za-z_]\w*)\s*;", txt, re.M))
        LOCAL_TYPES |= set(re.findall(r"^(?:struct|enum|union)\s+([A-Za-z_]\w*)\s*\{", txt, re.M))


def public_api(repo=REPO):
    names = set()
    for h in glob.glob(os.path.join(repo, "include", "*.h")) + glob.glob(os.path.join(repo, "include", "*", "*.h")):
        txt = csrc.strip_comments(open(h, errors="replace").read())
        names |= set(re.findall(r"\b(bidib_\w+)\s*\(", txt))
    return names


def infer_requires(tree, docreq, flags):
    """Lock preconditions of undocumented *internal, non-root* functions, derived from the code: such a function
    requires what its callees require and it does not acquire itself.  Roots (public API, thread entry points,
    functions without callers inside the library) always get the empty precondition, so a missing lock shows up as
    a failed obligation in the root's own unit.  Every derived precondition is an obligation at every call site."""
    api = public_api()
    called = set()
    for f in tree.funcs.values():
        called |= set(f.calls)
        called -= set()
    refs = set()
    for f in tree.funcs.values():
        refs |= set(f.fnptr_refs)
    roots = {f.name for f in tree.funcs.values() if f.name in api or f.name not in called or f.name in refs}
    inferred = {}
    changed = True
    while changed:
        changed = False
        for f in tree.funcs.values():
            if f.name in docreq and f.name not in inferred:
                continue
            if f.name in roots:
                continue
            own = {l for (op, l, _) in f.lockops}
            need = set()
            for c in f.calls:
                if c == f.name:
                    continue
                r = set(docreq.get(c, (set(), ""))[0])
                if c in flags:
                    idx = [n for _, n in tree.get(c).param_list()].index(flags[c]["param"])
                    if any(len(a) > idx and a[idx] == "false" for a in tree.call_args(f, c)):
                        r.add(flags[c]["lock"])
                need |= r
            need -= own
            if f.name in flags:
                need.discard(flags[f.name]["lock"])
            old = inferred.get(f.name, set())
            if need - old:
                inferred[f.name] = old | need
                docreq[f.name] = (old | need, "derived from the requirements of its callees")
                changed = True
    return inferred, roots


def all_headers():
    return sorted(glob.glob(os.path.join(REPO, "include", "*.h")) + glob.glob(os.path.join(REPO, "include", "*", "*.h")) +
                  glob.glob(os.path.join(REPO, "src", "*", "*.h")))


def write_stub_tu(tree, acq, docreq, flags, workdir):
    """one TU with a contract stub for every function that has a lock contract."""
    hdrs = all_headers()
    L = ['#include "vp_common.h"', '#include "vp_locks.h"', "#include <glib.h>", "#include <yaml.h>"]
    L += ['#include "%s"' % os.path.relpath(h, REPO) for h in hdrs]
    L.append("extern _Bool vp_init_phase;")
    names = []
    for key, g in sorted(tree.funcs.items()):
        req, free, fl = lock_contract(acq, docreq, flags, g.name)
        if not (req or free or fl):
            continue
        if g.static and not stub_compiles_static(g):
            continue
        names.append(g.name)
        L.append("%s %s(%s) {" % (g.ret, g.name, g.params or "void"))
        for l in sorted(req, key=RANK.get):
            L.append('\t__CPROVER_assert(vp_init_phase || vp_held[%d] != 0, "C10.requires_held: call of %s needs %s held (documented at %s)");' % (
                RANK[l], g.name, l, docreq[g.name][1]))
        for l in sorted(free, key=RANK.get):
            L.append('\t__CPROVER_assert(vp_held[%d] == 0, "C11.lock_order: call of %s (may acquire %s) while %s is held");' % (
                RANK[l], g.name, ",".join(sorted(acq[g.name] - ({fl["lock"]} if fl else set()), key=RANK.get)), l))
        if fl:
            i = RANK[fl["lock"]]
            L.append("\tif (%s) {" % fl["param"])
            for l in csrc.LOCKS:
                if RANK[l] >= i and l not in req:
                    L.append('\t\t__CPROVER_assert(vp_held[%d] == 0, "C11.lock_order: call of %s with %s=true (acquires %s) while %s is held");' % (
                        RANK[l], g.name, fl["param"], fl["lock"], l))
            L.append("\t} else {")
            L.append('\t\t__CPROVER_assert(vp_init_phase || vp_held[%d] != 0, "C10.requires_held: call of %s with %s=false needs %s held (%s)");' % (
                i, g.name, fl["param"], fl["lock"], fl["source"].split(" ")[0]))
            L.append("\t}")
        if g.ret.strip() != "void":
            L.append("\t%s vp_r; return vp_r;" % g.ret)
        L.append("}")
    src = os.path.join(workdir, "e2_stubs.c")
    with open(src, "w") as fh:
        fh.write("\n".join(L) + "\n")
    obj = os.path.join(workdir, "e2_stubs.gb")
    rc, _ = run(["goto-cc", "-c"] + base_cflags() + [src, "-o", obj], os.path.join(workdir, "e2_stubs.log"), timeout=300)
    if rc != 0:
        raise csrc.ExtractError("contract stub TU does not compile: " + open(os.path.join(workdir, "e2_stubs.log")).read()[-1500:])
    return obj, names


def generate(prop, tier, workdir):
    os.makedirs(workdir, exist_ok=True)
    tree = csrc.Tree()
    over = json.load(open(os.path.join(VERIF, "contracts", "locks.json")))
    flags = over.get("flag_contracts", {})
    acq = tree.acquires(flags)
    docreq = csrc.documented_requires()
    for k, v in over.get("requires_held", {}).items():
        docreq[k] = (set(v["locks"]), v["source"])
    for f in tree.files:
        if re.search(r"^[ \t]+static\b", csrc.strip_comments(open(f, errors="replace").read()), re.M):
            raise csrc.ExtractError("function-local static in %s: the E2 wrapper drops the `static` keyword and would change its meaning" % f)
    inferred, roots = infer_requires(tree, docreq, flags)
    initset = init_only(tree)
    stub_obj, stubbed = write_stub_tu(tree, acq, docreq, flags, workdir)
    stubbed = set(stubbed)
    units = []
    inv = " && ".join("vp_held[%d] == __CPROVER_loop_entry(vp_held[%d])" % (i, i) for i in range(len(csrc.LOCKS)))
    for key, f in sorted(tree.funcs.items()):
        if f.name in over.get("skip", {}):
            continue
        inl = [g for g in static_closure(tree, f) if not stub_compiles_static(g)]
        callees = []
        for g in [f] + inl:
            for c in g.calls:
                h = tree.get(c)
                if h and h is not f and h not in inl and c not in callees:
                    callees.append(c)
        contracted = [c for c in callees if c in stubbed]
        has_ops = any(g.lockops for g in [f] + inl)
        if not has_ops and not contracted and f.name not in docreq:
            continue
        rel = os.path.relpath(f.file, REPO)
        base = "e2_%s.c" % f.name
        req_f, free_f, fl_f = lock_contract(acq, docreq, flags, f.name)
        L = ['#include "vp_common.h"', '#include "vp_locks.h"', "#include <glib.h>", "#include <yaml.h>"] + \
            ['#include "%s"' % os.path.relpath(h, REPO) for h in all_headers()] + \
            ["#define static /* file-local linkage dropped: helpers are replaced by their contracts like any callee */"] + \
            ([] if any(g.name == "syslog_libbidib" for g in tree.by_file[f.file]) else
             ["#define syslog_libbidib(...) ((void)0) /* logging dropped: no effect on locks; keeps the object count low */"]) + \
            ['#include "%s"' % rel, "#undef static", "_Bool vp_init_phase;", "", "void vp_harness(void) {",
             "\tint vp_e[VP_NLOCKS];", "\tvp_init_phase = %d;" % (1 if f.name in initset else 0)]
        args = []
        for decl, name in f.param_list():
            L.append("\t%s;" % decl)
            args.append(name)
        for i, l in enumerate(csrc.LOCKS):
            L.append("\t{ int v; vp_held[%d] = v; }" % i)
            shared = " || (vp_held[%d] >= 1 && vp_held[%d] <= 2)" % (i, i) if l in csrc.RWLOCKS else ""
            anyst = "vp_held[%d] == 0 || vp_held[%d] == -1%s" % (i, i, " || vp_held[%d] == 1" % i if l in csrc.RWLOCKS else "")
            if fl_f and fl_f["lock"] == l:
                L.append("\t__CPROVER_assume(%s ? vp_held[%d] == 0 : (vp_held[%d] == -1%s));" % (fl_f["param"], i, i, shared))
            elif l in req_f:
                L.append("\t__CPROVER_assume(vp_held[%d] == -1%s);" % (i, shared))
            elif l in free_f or (fl_f and RANK[l] > RANK[fl_f["lock"]]):
                if fl_f and l not in free_f:
                    L.append("\t__CPROVER_assume(!%s || vp_held[%d] == 0);" % (fl_f["param"], i))
                    L.append("\t__CPROVER_assume(%s);" % anyst)
                else:
                    L.append("\t__CPROVER_assume(vp_held[%d] == 0);" % i)
            else:
                L.append("\t__CPROVER_assume(%s);" % anyst)
            L.append("\tvp_e[%d] = vp_held[%d];" % (i, i))
        call = "%s(%s);" % (f.name, ", ".join(args))
        if f.ret.strip() != "void":
            call = "(void)" + call
        L.append("\t" + call)
        L.append("\tVP_COVER(1);")
        for i, l in enumerate(csrc.LOCKS):
            L.append('\t__CPROVER_assert(vp_held[%d] == vp_e[%d], "C11.balanced_at_return: %s returns with %s in the state it was entered with");' % (i, i, f.name, l))
        L.append("}")
        src = os.path.join(workdir, base)
        with open(src, "w") as fh:
            fh.write("\n".join(L) + "\n")
        keep = {f.name} | {g.name for g in inl}
        others = [g.name for g in tree.by_file[f.file] if g.name not in keep]
        props = ["C11", "C10"]
        if "/parser/" in f.file or f.file.endswith("/bidib_state.c") or f.file.endswith("/bidib_state_free.c") or f.name in initset or \
                f.name in ("bidib_start_pointer", "bidib_start_serial", "bidib_state_init", "bidib_stop", "bidib_state_reset_train_params", "bidib_state_free"):
            props.append("C13")
        if prop == "C13" and "C13" not in props:
            continue
        if prop == "C12":
            # "cannot stop processing subsequent packets": the functions that run on the receiver thread
            if not (f.file.endswith("bidib_state_setter.c") or f.file.endswith("bidib_transmission_receive.c") or f.file.endswith("bidib_transmission_node_states.c")):
                continue
            props.append("C12")
        if prop == "C10" and not any(docreq.get(c, (set(),))[0] or c in flags for c in contracted):
            continue
        bnd = over.get("bounded_units", {}).get(f.name)
        if bnd:
            units.append(Unit(
                name="E2." + f.name, src=src, functions=[f.name], props=props, no_dfcc=True, kind="bounded",
                bound="loops unwound %d times without unwinding assertions; reason: %s" % (bnd["unwind"], bnd["reason"]),
                remove_bodies=others, link_objs=[(stub_obj, sorted(keep & stubbed))], stub_builtins=True, std_checks=False,
                timeout=300, mem_gb=12, extra_flags=["--unwind", str(bnd["unwind"]), "--nondet-static"],
                only_re=r"C1[01]\.", prop_filter={"C10": r"C10\.", "C11": r"C11\.", "C13": r"C11\."},
                min_obligations=15, covers=1, note="bounded stand-in of the lock-discipline unit"))
            continue
        units.append(Unit(
            name="E2." + f.name, src=src, functions=[f.name] + [g.name for g in inl], props=props, no_dfcc=False,
            loops=[{"function": g.name, "all": True, "invariants": inv, "optional": True} for g in [f] + inl],
            remove_bodies=others, link_objs=[(stub_obj, sorted(keep & stubbed))],
            stub_builtins=True, std_checks=False, timeout=600, mem_gb=12, object_bits=8,
            only_re=r"C1[01]\.|loop_invariant_(base|step)",
            prop_filter={"C10": r"C10\.", "C11": r"C11\.|loop_invariant", "C13": r"C11\.|loop_invariant", "C12": r"C11\.|loop_invariant"},
            min_obligations=15, covers=1, internal_is_property=True, stubbed_contracts=contracted,
            note="lock-discipline unit (E2): data fully abstracted (nondeterministic callee results and pointers; DFCC frame "
                 "checks on abstracted data are not obligations of this unit); tracked: the 15-lock ghost vector. "
                 "entry: required-held=%s must-be-free=%s%s; callees replaced by generated lock contract: %s%s" % (
                     sorted(req_f), sorted(free_f), " flag-controlled=%s" % fl_f["lock"] if fl_f else "",
                     ",".join(contracted) or "-", "; init phase (requires-held waived)" if f.name in initset else "") +
                 ("; precondition derived from callees' requirements (checked at every call site)" if f.name in inferred else "")))
    return units
