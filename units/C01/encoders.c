/* C01/C05/C18: bidib_buffer_message_with_data / bidib_buffer_message_without_data (and the static bidib_buffer_message)
 * against the message layout  len | addr.. | 0 | seq | type | data..  for every address depth, type, payload and length.
 * Preconditions = contracts/send_contract.h (what every caller is proved to establish, C18).
 * Callees replaced by their contracts (DFCC): sequence-number allocation, admission (try_send), add_to_buffer, extract_address.
 * VP_WITH_DATA selects the function under proof. */
#include "vp_common.h"
#include "vp_syslog.h"
#include "src/transmission/bidib_transmission_send.c"

/* ---- ghost written only by the callee contracts */
unsigned g_seq_calls; uint8_t g_seq_val; uint8_t g_seq_addr0;
unsigned g_ts_calls; uint8_t g_ts_type; uint8_t g_ts_len; uint8_t g_ts_watch; _Bool g_ts_ret; uint8_t g_ts_addr[4]; const uint8_t *g_ts_msg;
unsigned g_add_calls; uint8_t g_add_len; uint8_t g_add_watch; const uint8_t *g_add_msg; unsigned g_add_after_ts;
size_t g_w;     /* watched message index, chosen by the harness */

uint8_t bidib_node_state_get_and_incr_send_seqnum(const uint8_t *const addr_stack)
__CPROVER_requires(__CPROVER_r_ok(addr_stack, 4))
__CPROVER_assigns(g_seq_calls, g_seq_val, g_seq_addr0)
__CPROVER_ensures(g_seq_calls == __CPROVER_old(g_seq_calls) + 1)
__CPROVER_ensures(__CPROVER_return_value == g_seq_val && g_seq_addr0 == addr_stack[0])
;

void bidib_extract_address(const uint8_t *const message, uint8_t *dest)
__CPROVER_requires(__CPROVER_r_ok(message, (size_t)message[0] + 1) && __CPROVER_w_ok(dest, 4))
__CPROVER_assigns(__CPROVER_object_whole(dest))
__CPROVER_ensures(dest[0] == message[1])
__CPROVER_ensures(dest[1] == (message[1] == 0 ? 0 : message[2]))
__CPROVER_ensures(dest[2] == ((message[1] == 0 || message[2] == 0) ? 0 : message[3]))
__CPROVER_ensures(dest[3] == 0)
;

bool bidib_node_try_send(const uint8_t *const addr_stack, uint8_t type, const uint8_t *const message, unsigned int action_id)
__CPROVER_requires(__CPROVER_r_ok(addr_stack, 4) && __CPROVER_r_ok(message, (size_t)message[0] + 1))
__CPROVER_requires(type < 0x80)
__CPROVER_assigns(g_ts_calls, g_ts_type, g_ts_len, g_ts_watch, g_ts_ret, __CPROVER_object_whole(g_ts_addr), g_ts_msg)
__CPROVER_ensures(g_ts_calls == __CPROVER_old(g_ts_calls) + 1 && g_ts_type == type && g_ts_len == message[0] && g_ts_msg == message)
__CPROVER_ensures(g_w > message[0] || g_ts_watch == message[g_w])
__CPROVER_ensures(g_ts_addr[0] == addr_stack[0] && g_ts_addr[1] == addr_stack[1] && g_ts_addr[2] == addr_stack[2] && g_ts_addr[3] == addr_stack[3])
__CPROVER_ensures(__CPROVER_return_value == g_ts_ret)
;

void bidib_add_to_buffer(const uint8_t *const message)
__CPROVER_requires(__CPROVER_r_ok(message, (size_t)message[0] + 1))
__CPROVER_requires(message[0] >= 3 && message[0] <= 127)
__CPROVER_assigns(g_add_calls, g_add_len, g_add_watch, g_add_msg, g_add_after_ts)
__CPROVER_ensures(g_add_calls == __CPROVER_old(g_add_calls) + 1 && g_add_len == message[0] && g_add_msg == message && g_add_after_ts == g_ts_calls)
__CPROVER_ensures(g_w > message[0] || g_add_watch == message[g_w])
;

void vp_harness(void) {
	uint8_t in_addr[4]; VP_IN_BYTES(in_addr, 4);
	__CPROVER_assume(in_addr[3] == 0);                       /* VP_BMWD_PRE: terminated address stack */
	uint8_t in_type; VP_IN(uint8_t, in_type);
	__CPROVER_assume(in_type < 0x80);                        /* VP_BMWD_PRE */
	unsigned in_action; VP_IN(unsigned, in_action);
	_Bool in_seq_enabled; VP_IN(_Bool, in_seq_enabled);
	VP_IN(size_t, g_w);
	unsigned asz = in_addr[0] == 0 ? 1u : in_addr[1] == 0 ? 2u : in_addr[2] == 0 ? 3u : 4u;
	bidib_seq_num_enabled = in_seq_enabled;
	g_seq_calls = 0; g_ts_calls = 0; g_add_calls = 0; g_add_after_ts = 0;
#ifdef VP_WITH_DATA
	uint8_t in_dlen; VP_IN(uint8_t, in_dlen);
	__CPROVER_assume((unsigned)in_dlen + asz + 3u <= 128u);  /* VP_BMWD_PRE: length byte <= 127 */
#ifdef VP_MAX_DLEN
	__CPROVER_assume(in_dlen <= VP_MAX_DLEN);               /* bounded fall-back variant */
#endif
	uint8_t *data = malloc(in_dlen);
	__CPROVER_assume(data != NULL);
	unsigned dlen = in_dlen;
	bidib_buffer_message_with_data(in_addr, in_type, in_dlen, data, in_action);
#else
	unsigned dlen = 0;
	uint8_t *data = NULL;
	bidib_buffer_message_without_data(in_addr, in_type, in_action);
#endif
	VP_COVER(g_add_calls == 1 && asz == 4);
	VP_COVER(g_add_calls == 0 && asz == 1);
	__CPROVER_assert(g_ts_calls == 1, "C01.encode.admission_decided_exactly_once");
	__CPROVER_assert(g_add_calls == (g_ts_ret ? 1u : 0u), "C01.encode.buffered_iff_admitted_and_at_most_once");
	__CPROVER_assert(g_seq_calls == (in_seq_enabled ? 1u : 0u), "C05.encode.one_sequence_number_allocated_iff_numbering_enabled");
	__CPROVER_assert(!in_seq_enabled || g_seq_addr0 == in_addr[0], "C05.encode.sequence_number_of_the_destination_node");
	unsigned total = dlen + asz + 3u;
	__CPROVER_assert(g_ts_len == total - 1, "C01.encode.length_byte_is_message_length_minus_one");
	__CPROVER_assert(g_ts_type == in_type, "C01.encode.type_passed_to_admission");
	__CPROVER_assert(g_ts_addr[0] == in_addr[0] && g_ts_addr[1] == (asz >= 2 ? in_addr[1] : 0) && g_ts_addr[2] == (asz >= 3 ? in_addr[2] : 0) && g_ts_addr[3] == 0,
	                 "C01.encode.admission_for_the_destination_node");
	if (g_w < total) {
		uint8_t want;
		if (g_w == 0) want = (uint8_t)(total - 1);
		else if (g_w <= asz) want = in_addr[g_w - 1];           /* address bytes incl. the terminating 0 */
		else if (g_w == asz + 1) want = in_seq_enabled ? g_seq_val : 0;
		else if (g_w == asz + 2) want = in_type;
		else want = data[g_w - asz - 3];
		__CPROVER_assert(g_ts_watch == want, "C01.encode.message_bytes_len_addr_0_seq_type_data");
		if (g_ts_ret) {
			__CPROVER_assert(g_add_msg == g_ts_msg && g_add_len == g_ts_len && g_add_watch == want, "C01.encode.same_message_handed_to_the_buffer");
			__CPROVER_assert(g_add_after_ts == 1, "C01.encode.buffered_after_admission");
		}
	}
}
#ifdef VP_REPLAY
int main(void) { vp_harness(); printf("REPLAY-PASS\n"); return 0; }
#endif
