/* (with -DVP_BYTES: additionally byte-exact - a watched payload byte appears at its stream position, escaped iff it is
 *  0xFE/0xFD, and the packet ends with the CRC of the payload (relative to bidib_crc_array, whose content is proved in
 *  C01.crc_table), escaped iff it is 0xFE/0xFD, followed by the delimiter.)
 * C01: bidib_flush_impl - framing, staging-buffer safety and exact length accounting, for every buffer content and
 * fill level 0..256 (loop contract, no unwinding bound).
 *   - every chunk handed to the write callback is a non-empty prefix of the staging buffer (src == buffer_aux, 0 < n <= 312)
 *   - the staging buffer is never overrun (CBMC bounds checks + invariant aux_index <= 310 at the loop head)
 *   - total bytes emitted = 1 (delimiter) + n + #escaped payload bytes + 1|2 (CRC) + 1 (delimiter); nothing for an empty buffer
 *   - the first byte emitted is the delimiter, the last byte emitted is the delimiter
 *   - buffer_index is 0 afterwards
 * Prophecy array vp_esc[k] = number of bytes among buffer[0..k) that need escaping (computed by the harness). */
#include "vp_common.h"
#include "vp_syslog.h"
#include <time.h>
int vp_clock_gettime(struct timespec *ts);
#define clock_gettime(id, ts) vp_clock_gettime(ts)
#include "src/transmission/bidib_transmission_send.c"
#undef clock_gettime
#ifdef VP_MAX_N
#include "src/transmission/bidib_transmission_crc.c"   /* bounded byte-exact variant: the real CRC table */
#endif

/* time stub: arbitrary but sane values (tv_sec in [0, 2^40), tv_nsec in [0, 1e9)) - assumption listed in the evidence */
int vp_clock_gettime(struct timespec *ts) {
	long s, ns;
	__CPROVER_assume(s >= 0 && s < (1L << 40) && ns >= 0 && ns < 1000000000L);
	ts->tv_sec = s; ts->tv_nsec = ns;
	return 0;
}

unsigned vp_esc[PACKET_BUFFER_SIZE + 1];
size_t g_total;          /* bytes handed to the write callback so far */
unsigned g_chunks;
uint8_t g_first, g_last;
#ifdef VP_BYTES
uint8_t vp_crc[PACKET_BUFFER_SIZE + 1];    /* prophecy: CRC of buffer[0..k) */
size_t g_w, g_pos; uint8_t g_exp0, g_exp1; _Bool g_needesc; unsigned g_seen;
uint8_t g_tail[3]; int g_tail_n;
#endif

void vp_write(uint8_t *p, int32_t n) {
	__CPROVER_assert(n > 0 && n <= PACKET_BUFFER_AUX_SIZE, "C01.flush.chunk_len_in_(0,312]");
	__CPROVER_assert(p == (uint8_t *)buffer_aux, "C01.flush.chunk_src_is_staging_buffer");
	if (n > 0 && n <= PACKET_BUFFER_AUX_SIZE && p == (uint8_t *)buffer_aux) {
		if (g_total == 0) g_first = p[0];
		g_last = p[n - 1];
	}
#ifdef VP_BYTES
	if (n > 0 && n <= PACKET_BUFFER_AUX_SIZE && p == (uint8_t *)buffer_aux) {
		if (g_pos >= g_total && g_pos < g_total + (size_t)n) {
			__CPROVER_assert(p[g_pos - g_total] == g_exp0, "C01.flush.payload_byte_at_its_stream_position_escape_marker_first_if_needed");
			if (g_needesc) __CPROVER_assert(g_pos + 1 < g_total + (size_t)n && p[g_pos - g_total + 1] == g_exp1, "C01.flush.escaped_byte_follows_its_marker_in_the_same_chunk");
			g_seen++;
		}
		g_tail_n = n >= 3 ? 3 : n;
		g_tail[2] = p[n - 1]; if (n >= 2) g_tail[1] = p[n - 2]; if (n >= 3) g_tail[0] = p[n - 3];
	}
#endif
	g_total += (size_t)n;
	g_chunks++;
}

void vp_harness(void) {
	size_t in_n; VP_IN(size_t, in_n);
	__CPROVER_assume(in_n <= PACKET_BUFFER_SIZE);
#ifdef VP_MAX_N
	__CPROVER_assume(in_n <= VP_MAX_N);
#endif
	uint8_t in_buffer[PACKET_BUFFER_SIZE]; VP_IN_BYTES(in_buffer, PACKET_BUFFER_SIZE);
	vp_esc[0] = 0;
#ifdef VP_BYTES
	vp_crc[0] = 0;
#endif
	for (unsigned k = 0; k < PACKET_BUFFER_SIZE; k++) {
		buffer[k] = in_buffer[k];
#ifdef VP_BYTES
		vp_crc[k + 1] = bidib_crc_array[in_buffer[k] ^ vp_crc[k]];
#endif
		vp_esc[k + 1] = vp_esc[k] + ((in_buffer[k] == 0xFE || in_buffer[k] == 0xFD) ? 1u : 0u);
	}
#ifdef VP_BYTES
	VP_IN(size_t, g_w); __CPROVER_assume(g_w < PACKET_BUFFER_SIZE);
	g_pos = 1 + g_w + vp_esc[g_w]; g_needesc = (in_buffer[g_w] == 0xFE || in_buffer[g_w] == 0xFD);
	g_exp0 = g_needesc ? 0xFD : in_buffer[g_w]; g_exp1 = in_buffer[g_w] ^ 0x20; g_seen = 0; g_tail_n = 0;
	if (g_w >= in_n) g_pos = (size_t)-1;      /* nothing to watch */
#endif
	buffer_index = in_n;
	write_bytes = vp_write;
	g_total = 0; g_chunks = 0; g_first = 0; g_last = 0;

	bidib_flush_impl();

	VP_COVER(in_n == 0);
#ifndef VP_MAX_N
	VP_COVER(in_n == 256 && g_chunks == 2);
#else
	VP_COVER(in_n == VP_MAX_N);
#endif
	VP_COVER(g_chunks == 1 && in_n > 0);
	__CPROVER_assert(buffer_index == 0, "C01.flush.buffer_emptied");
	if (in_n == 0) {
		__CPROVER_assert(g_total == 0 && g_chunks == 0, "C01.flush.nothing_emitted_for_empty_buffer");
	} else {
		__CPROVER_assert(g_total == in_n + vp_esc[in_n] + 3 || g_total == in_n + vp_esc[in_n] + 4,
		                 "C01.flush.packet_length: delimiter + payload + escapes + crc(1|2) + delimiter");
		__CPROVER_assert(g_first == 0xFE, "C01.flush.starts_with_delimiter");
		__CPROVER_assert(g_last == 0xFE, "C01.flush.ends_with_delimiter");
		__CPROVER_assert(g_chunks >= 1 && g_chunks <= 3, "C01.flush.chunk_count");
#ifdef VP_BYTES
		__CPROVER_assert(g_seen == (g_w < in_n ? 1u : 0u), "C01.flush.every_payload_byte_emitted_exactly_once");
		uint8_t c = vp_crc[in_n];
		VP_COVER(c == 0xFD);
#ifndef VP_MAX_N
		VP_COVER(g_needesc && g_w < in_n && g_chunks == 2);
#else
		VP_COVER(g_needesc && g_w < in_n); VP_COVER(c == 0xFE);
#endif
		__CPROVER_assert(g_tail_n >= 2 && g_tail[2] == 0xFE, "C01.flush.last_chunk_ends_with_crc_and_delimiter");
		if (c == 0xFE || c == 0xFD) __CPROVER_assert(g_tail_n == 3 && g_tail[0] == 0xFD && g_tail[1] == (uint8_t)(c ^ 0x20), "C01.flush.crc_equal_to_delimiter_or_escape_byte_is_escaped");
		else __CPROVER_assert(g_tail[1] == c, "C01.flush.crc_of_the_payload_precedes_the_closing_delimiter");
#endif
	}
}
#ifdef VP_REPLAY
int main(void) { vp_harness(); printf("REPLAY-PASS\n"); return 0; }
#endif
