/* C01: bidib_flush_impl - framing, staging-buffer safety and exact length accounting, for every buffer content and
 * fill level 0..256 (loop contract, no unwinding bound).
 *   - every chunk handed to the write callback is a non-empty prefix of the staging buffer (src == buffer_aux, 0 < n <= 312)
 *   - the staging buffer is never overrun (CBMC bounds checks + invariant aux_index <= 310 at the loop head)
 *   - total bytes emitted = 1 (delimiter) + n + #escaped payload bytes + 1|2 (CRC) + 1 (delimiter); nothing for an empty buffer
 *   - the first byte emitted is the delimiter, the last byte emitted is the delimiter
 *   - buffer_index is 0 afterwards
 * Prophecy array vp_esc[k] = number of bytes among buffer[0..k) that need escaping (computed by the harness). */
#include "vp_common.h"
#include "vp_syslog.h"
#include <time.h>
int vp_clock_gettime(struct timespec *ts);
#define clock_gettime(id, ts) vp_clock_gettime(ts)
#include "src/transmission/bidib_transmission_send.c"
#undef clock_gettime

/* time stub: arbitrary but sane values (tv_sec in [0, 2^40), tv_nsec in [0, 1e9)) - assumption listed in the evidence */
int vp_clock_gettime(struct timespec *ts) {
	long s, ns;
	__CPROVER_assume(s >= 0 && s < (1L << 40) && ns >= 0 && ns < 1000000000L);
	ts->tv_sec = s; ts->tv_nsec = ns;
	return 0;
}

unsigned vp_esc[PACKET_BUFFER_SIZE + 1];
size_t g_total;          /* bytes handed to the write callback so far */
unsigned g_chunks;
uint8_t g_first, g_last;

void vp_write(uint8_t *p, int32_t n) {
	__CPROVER_assert(n > 0 && n <= PACKET_BUFFER_AUX_SIZE, "C01.flush.chunk_len_in_(0,312]");
	__CPROVER_assert(p == (uint8_t *)buffer_aux, "C01.flush.chunk_src_is_staging_buffer");
	if (n > 0 && n <= PACKET_BUFFER_AUX_SIZE && p == (uint8_t *)buffer_aux) {
		if (g_total == 0) g_first = p[0];
		g_last = p[n - 1];
	}
	g_total += (size_t)n;
	g_chunks++;
}

void vp_harness(void) {
	size_t in_n; VP_IN(size_t, in_n);
	__CPROVER_assume(in_n <= PACKET_BUFFER_SIZE);
	uint8_t in_buffer[PACKET_BUFFER_SIZE]; VP_IN_BYTES(in_buffer, PACKET_BUFFER_SIZE);
	vp_esc[0] = 0;
	for (unsigned k = 0; k < PACKET_BUFFER_SIZE; k++) {
		buffer[k] = in_buffer[k];
		vp_esc[k + 1] = vp_esc[k] + ((in_buffer[k] == 0xFE || in_buffer[k] == 0xFD) ? 1u : 0u);
	}
	buffer_index = in_n;
	write_bytes = vp_write;
	g_total = 0; g_chunks = 0; g_first = 0; g_last = 0;

	bidib_flush_impl();

	VP_COVER(in_n == 0);
	VP_COVER(in_n == 256 && g_chunks == 2);
	VP_COVER(g_chunks == 1 && in_n > 0);
	__CPROVER_assert(buffer_index == 0, "C01.flush.buffer_emptied");
	if (in_n == 0) {
		__CPROVER_assert(g_total == 0 && g_chunks == 0, "C01.flush.nothing_emitted_for_empty_buffer");
	} else {
		__CPROVER_assert(g_total == in_n + vp_esc[in_n] + 3 || g_total == in_n + vp_esc[in_n] + 4,
		                 "C01.flush.packet_length: delimiter + payload + escapes + crc(1|2) + delimiter");
		__CPROVER_assert(g_first == 0xFE, "C01.flush.starts_with_delimiter");
		__CPROVER_assert(g_last == 0xFE, "C01.flush.ends_with_delimiter");
		__CPROVER_assert(g_chunks >= 1 && g_chunks <= 3, "C01.flush.chunk_count");
	}
}
#ifdef VP_REPLAY
int main(void) { vp_harness(); printf("REPLAY-PASS\n"); return 0; }
#endif
