/* C01: bidib_add_to_buffer against its contract; bidib_flush_impl replaced by ITS contract (proved in flush_*.c).
 *
 * Representation invariant of the send buffer (RI):
 *   buffer_index <= pkt_max_cap - 4 (<= 251),  64 <= pkt_max_cap <= 255,
 *   the buffer starts with a whole message (buffer[0] + 1 <= buffer_index when non-empty).
 * Contract of bidib_flush_impl as used here (requires = obligations at the two call sites):
 *   buffer_index <= 256; a buffer holding more than one message (buffer_index > buffer[0] + 1) has
 *   buffer_index <= pkt_max_cap  [C01: multi-message packet within capacity];
 *   effect: the whole buffer[0..buffer_index) is emitted as one packet (ghost image), buffer_index' == 0.
 */
#include "vp_common.h"
#include "vp_syslog.h"
#include <pthread.h>
/* callee redirection without touching the real text: the definition `bidib_flush_impl(void)` keeps its body under
 * another name (unused in this unit); every CALL `bidib_flush_impl()` goes to the contract stub below. */
#define bidib_flush_impl(x) VP_FLUSH_SEL_##x
#define VP_FLUSH_SEL_void vp_real_flush_impl(void)
#define VP_FLUSH_SEL_ vp_flush_contract()
void vp_flush_contract(void);
int vp_mutex_lock(void);
int vp_mutex_unlock(void);
/* memcpy replaced by its contract: destination writable and source readable for n bytes (the memory-safety obligation),
 * effect = sound over-approximation observed through the watched indices (see vp_memcpy_contract below). */
void *vp_memcpy_contract(void *dst, const void *src, size_t n);
#define memcpy(d, s, n) vp_memcpy_contract((d), (s), (n))
#define pthread_mutex_lock(m) vp_mutex_lock()
#define pthread_mutex_unlock(m) vp_mutex_unlock()
#include "src/transmission/bidib_transmission_send.c"
#undef bidib_flush_impl
#undef memcpy

/* absolute indices of `buffer` that some assertion reads after the call: [0] first length byte, [1] watched message byte,
 * [2] watched old byte, [3] the flush contract's watch.  Every other byte of the buffer is havocked by the memcpy contract
 * (over-approximation: more behaviours than the real memcpy, never fewer). */
size_t g_obs[4];

void *vp_memcpy_contract(void *dst, const void *src, size_t n) {
	__CPROVER_assert(__CPROVER_w_ok(dst, n), "C01.add.memcpy_destination_inside_send_buffer");
	__CPROVER_assert(__CPROVER_r_ok(src, n), "C01.add.memcpy_source_readable");
	__CPROVER_assert(__CPROVER_same_object(dst, (const void *)buffer), "C01.add.memcpy_writes_the_send_buffer");
	size_t off = __CPROVER_POINTER_OFFSET(dst);
	uint8_t sv[4]; _Bool in[4]; uint8_t nv[4];
	for (int q = 0; q < 4; q++) {
		size_t x = g_obs[q];
		sv[q] = x < PACKET_BUFFER_SIZE ? buffer[x] : 0;
		in[q] = (x >= off && x - off < n);
		nv[q] = (in[q] && __CPROVER_r_ok(src, n)) ? ((const uint8_t *)src)[x - off] : sv[q];
	}
	uint8_t fresh[PACKET_BUFFER_SIZE];
	for (unsigned k = 0; k < PACKET_BUFFER_SIZE; k++) buffer[k] = fresh[k];
	for (int q = 0; q < 4; q++) if (g_obs[q] < PACKET_BUFFER_SIZE) buffer[g_obs[q]] = nv[q];
	return dst;
}

/* ghost: images of the (at most two) flushes of one add_to_buffer call */
unsigned g_flushes;
size_t g_fl_len[3];
uint8_t g_fl_watch_val[3];
size_t g_fl_first_len[3];
size_t g_watch_idx;            /* absolute buffer index watched by the flush contract (nondet, chosen by the harness) */
_Bool g_mutex_held;

int vp_mutex_lock(void) { __CPROVER_assert(!g_mutex_held, "C01.add.mutex_not_reentered"); g_mutex_held = 1; return 0; }
int vp_mutex_unlock(void) { __CPROVER_assert(g_mutex_held, "C01.add.mutex_held_at_unlock"); g_mutex_held = 0; return 0; }

/* contract stub of the static bidib_flush_impl (its body is dropped in this unit) */
void vp_flush_contract(void) {
	__CPROVER_assert(g_mutex_held, "C01.add.flush_called_with_send_buffer_mutex_held");
	__CPROVER_assert(buffer_index <= PACKET_BUFFER_SIZE, "C01.add.flush_pre.buffer_index_le_256");
	__CPROVER_assert(buffer_index == 0 || buffer_index <= (size_t)buffer[0] + 1 || buffer_index <= pkt_max_cap,
	                 "C01.add.multi_message_packet_within_capacity");
	__CPROVER_assert(g_flushes < 2, "C01.add.at_most_two_flushes");
	if (g_flushes < 2) {
		g_fl_len[g_flushes] = buffer_index;
		g_fl_first_len[g_flushes] = buffer_index > 0 ? (size_t)buffer[0] + 1 : 0;
		if (g_watch_idx < buffer_index) g_fl_watch_val[g_flushes] = buffer[g_watch_idx];
	}
	g_flushes++;
	buffer_index = 0;
}

void vp_harness(void) {
	/* arbitrary state satisfying RI */
	unsigned in_cap; VP_IN(unsigned, in_cap);
	size_t in_index; VP_IN(size_t, in_index);
	__CPROVER_assume(in_cap >= 64 && in_cap <= 255);
	__CPROVER_assume(in_index <= in_cap - 4);
	pkt_max_cap = in_cap;
	buffer_index = in_index;
	uint8_t in_buffer[PACKET_BUFFER_SIZE]; VP_IN_BYTES(in_buffer, PACKET_BUFFER_SIZE);
	for (unsigned k = 0; k < PACKET_BUFFER_SIZE; k++) buffer[k] = in_buffer[k];
	__CPROVER_assume(in_index == 0 || (size_t)buffer[0] + 1 <= in_index);
	/* arbitrary message of its own announced length (4..128 bytes: the senders' contract, C18/C01 encoders) */
	uint8_t in_len; VP_IN(uint8_t, in_len);
	__CPROVER_assume(in_len >= 3 && in_len <= 127);
	uint8_t *message = malloc((size_t)in_len + 1);
	__CPROVER_assume(message != NULL);
	message[0] = in_len;
	size_t in_j; VP_IN(size_t, in_j);          /* watched byte of the message */
	__CPROVER_assume(in_j <= in_len);
	size_t in_k; VP_IN(size_t, in_k);          /* watched byte of the old content */
	__CPROVER_assume(in_k < PACKET_BUFFER_SIZE);
	VP_IN(size_t, g_watch_idx);
	uint8_t old_k = buffer[in_k];
	uint8_t msg_j = message[in_j];
	g_flushes = 0; g_mutex_held = 0;
	size_t len = (size_t)in_len + 1;
	{ size_t st0 = (in_index + len > in_cap) ? 0 : in_index;
	  g_obs[0] = 0; g_obs[1] = st0 + in_j; g_obs[2] = in_k; g_obs[3] = g_watch_idx; }

	bidib_add_to_buffer(message);

	VP_COVER(g_flushes == 0);
	VP_COVER(g_flushes == 1 && buffer_index == 0);
	VP_COVER(g_flushes == 1 && buffer_index != 0);
	VP_COVER(g_flushes == 2);
	__CPROVER_assert(!g_mutex_held, "C01.add.mutex_released");
	__CPROVER_assert(buffer_index <= pkt_max_cap - 4, "C01.add.RI_preserved: buffer_index <= capacity - 4");
	__CPROVER_assert(pkt_max_cap == in_cap, "C01.add.capacity_unchanged");
	/* where did the message go?  start = 0 if the old content was flushed first, else the old fill index */
	_Bool flushed_before = (in_index + len > in_cap);
	size_t start = flushed_before ? 0 : in_index;
	_Bool flushed_after = (start + len > (size_t)in_cap - 4);
	__CPROVER_assert(g_flushes == (flushed_before ? 1u : 0u) + (flushed_after ? 1u : 0u), "C01.add.flush_count_matches_rules");
	if (flushed_before) {
		__CPROVER_assert(g_fl_len[0] == in_index, "C01.add.old_content_flushed_whole");
		if (g_watch_idx == in_k && in_k < in_index) __CPROVER_assert(g_fl_watch_val[0] == old_k, "C01.add.old_content_flushed_unchanged");
	}
	if (flushed_after) {
		unsigned f = flushed_before ? 1 : 0;
		__CPROVER_assert(buffer_index == 0, "C01.add.buffer_empty_after_final_flush");
		__CPROVER_assert(g_fl_len[f] == start + len, "C01.add.message_flushed_whole_exactly_once");
		if (g_watch_idx == start + in_j) __CPROVER_assert(g_fl_watch_val[f] == msg_j, "C01.add.message_bytes_identical_in_packet");
		if (!flushed_before && g_watch_idx == in_k && in_k < in_index) __CPROVER_assert(g_fl_watch_val[f] == old_k, "C01.add.earlier_messages_kept_in_front");
	} else {
		__CPROVER_assert(buffer_index == start + len, "C01.add.message_appended_whole");
		__CPROVER_assert(buffer[start + in_j] == msg_j, "C01.add.message_bytes_identical_in_buffer");
		if (!flushed_before && in_k < in_index) __CPROVER_assert(buffer[in_k] == old_k, "C01.add.earlier_messages_untouched");
	}
}
#ifdef VP_REPLAY
int main(void) { vp_harness(); printf("REPLAY-PASS\n"); return 0; }
#endif
