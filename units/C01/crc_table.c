/* C01/C02 lemma: the table the sender and the receiver index is the CRC8 of the BiDiB spec
 * (polynomial x^8+x^5+x^4+1, reflected = 0x8C, init 0), for every (crc, byte) pair. */
#include "vp_common.h"
#include "src/transmission/bidib_transmission_crc.c"

static uint8_t spec_crc8_step(uint8_t crc, uint8_t byte) {
	uint8_t c = crc ^ byte;
	for (int k = 0; k < 8; k++) {
		c = (c & 1) ? (uint8_t)((c >> 1) ^ 0x8C) : (uint8_t)(c >> 1);
	}
	return c;
}

void vp_harness(void) {
	uint8_t in_crc, in_byte;
	VP_IN(uint8_t, in_crc);
	VP_IN(uint8_t, in_byte);
	uint8_t got = bidib_crc_array[in_byte ^ in_crc];
	uint8_t want = spec_crc8_step(in_crc, in_byte);
	VP_COVER(got == 0xFE);
	VP_ASSERT(got == want, "C01.crc.table_entry_equals_spec_crc8");
}
#ifdef VP_REPLAY
int main(void) { vp_harness(); printf("REPLAY-PASS\n"); return 0; }
#endif
