/* C01: bidib_state_packet_capacity - capacity in force = max(64, announced), for all 256 announced values, under the send-buffer mutex */
#include "vp_common.h"
#include "vp_syslog.h"
#include <pthread.h>
_Bool g_mutex_held; unsigned g_locks, g_unlocks; _Bool g_write_outside;
#define pthread_mutex_lock(m) (g_mutex_held = 1, g_locks++, 0)
#define pthread_mutex_unlock(m) (g_mutex_held = 0, g_unlocks++, 0)
#include "src/transmission/bidib_transmission_send.c"
void vp_harness(void) {
	uint8_t in_cap; VP_IN(uint8_t, in_cap);
	unsigned in_old; VP_IN(unsigned, in_old);
	size_t in_index; VP_IN(size_t, in_index);
	pkt_max_cap = in_old; buffer_index = in_index; g_mutex_held = 0; g_locks = 0; g_unlocks = 0;
	bidib_state_packet_capacity(in_cap);
	VP_COVER(in_cap > 64);
	VP_COVER(in_cap < 64);
	__CPROVER_assert(pkt_max_cap == (in_cap <= 64 ? 64u : (unsigned)in_cap), "C01.capacity.is_max_of_64_and_announced");
	__CPROVER_assert(pkt_max_cap >= 64 && pkt_max_cap <= 255, "C01.capacity.range_64_255");
	__CPROVER_assert(buffer_index == in_index, "C01.capacity.buffer_untouched");
	__CPROVER_assert(g_locks == 1 && g_unlocks == 1 && !g_mutex_held, "C01.capacity.under_send_buffer_mutex");
}
#ifdef VP_REPLAY
int main(void) { vp_harness(); printf("REPLAY-PASS\n"); return 0; }
#endif
