from vpkg.core import Unit
UNITS = [
    Unit(name="C01.crc_table", src="units/C01/crc_table.c", functions=["bidib_crc_array"], props=["C01", "C02"],
         no_dfcc=True, unwindset={"spec_crc8_step.0": 9}, unwind_reason="8 CRC bits", replay="units/C01/crc_table.c",
         note="loop-free after unwinding: complete over all 65536 (crc, byte) pairs"),
    Unit(name="C01.add_to_buffer", src="units/C01/add_to_buffer.c", functions=["bidib_add_to_buffer"], props=["C01"],
         no_dfcc=True, stubbed_contracts=["bidib_flush_impl", "memcpy"], unwindset={"vp_harness.0": 257, "vp_memcpy_contract.0": 5, "vp_memcpy_contract.1": 257, "vp_memcpy_contract.2": 5}, unwind_reason="constant-bound loops of the harness and of the memcpy contract stub only; bidib_add_to_buffer is loop-free",
         extra_flags=["--nondet-static"], timeout=300, covers=4, min_obligations=12, replay="units/C01/add_to_buffer.c",
         note="memcpy of message[0]+1 bytes into the 256-byte buffer for every fill level, capacity 64..255 and message length 4..128"),
    Unit(name="C01.flush_safety", src="units/C01/flush_safety.c", functions=["bidib_flush_impl"], props=["C01"],
         loops=[{"function": "bidib_flush_impl", "anchor": r"for \(size_t i = 0; i < buffer_index",
                 "invariants": "i <= buffer_index && buffer_index == __CPROVER_loop_entry(buffer_index) && 1 <= aux_index && aux_index <= 310 && "
                               "g_total + aux_index == 1 + i + vp_esc[i] && vp_esc[i] <= i && "
                               "((g_chunks == 0 && g_total == 0) || (g_chunks == 1 && g_total >= 309 && g_total <= 311)) && "
                               "(g_total == 0 ? buffer_aux[0] == 0xFE : g_first == 0xFE)",
                 "assigns": "i, aux_index, crc, __CPROVER_object_whole(buffer_aux), g_total, g_chunks, g_first, g_last",
                 "decreases": "buffer_index - i"}],
         unwindset={"vp_harness.0": 257}, unwind_reason="harness prophecy loop over the 256-byte buffer (constant); the loop of bidib_flush_impl carries a loop contract",
         timeout=300, covers=3, min_obligations=20, replay="units/C01/flush_safety.c",
         note="every fill level 0..256 and every buffer content; write callback replaced by a checking stub"),
    Unit(name="C01.encode_with_data", src="units/C01/encoders.c", defines=["VP_WITH_DATA"],
         functions=["bidib_buffer_message_with_data", "bidib_buffer_message", "bidib_log_send_message"], props=["C01", "C05", "C18"],
         replace=["bidib_node_state_get_and_incr_send_seqnum", "bidib_extract_address", "bidib_node_try_send", "bidib_add_to_buffer"],
         loops=[{"function": "bidib_buffer_message_with_data", "anchor": r"for \(size_t i = 1; i <= addr_stack_size",
                 "invariants": "1 <= i && i <= (unsigned long)addr_stack_size + 1 && message[0] == __CPROVER_loop_entry(message[0]) && "
                               "(!(i > 1) || message[1] == addr_stack[0]) && (!(i > 2) || message[2] == addr_stack[1]) && (!(i > 3) || message[3] == addr_stack[2]) && (!(i > 4) || message[4] == addr_stack[3])",
                 "assigns": "i, __CPROVER_object_whole(message)", "decreases": "(unsigned long)addr_stack_size + 1 - i"},
                {"function": "bidib_buffer_message_with_data", "anchor": r"for \(size_t i = 0; i < data_length",
                 "invariants": "i <= data_length && message[0] == message_length - 1 && (!(1 <= addr_stack_size) || message[1] == addr_stack[0]) && (!(2 <= addr_stack_size) || message[2] == addr_stack[1]) && (!(3 <= addr_stack_size) || message[3] == addr_stack[2]) && (!(4 <= addr_stack_size) || message[4] == addr_stack[3]) && message[addr_stack_size + 1] == seqnum && message[addr_stack_size + 2] == msg_type && "
                               "(!(g_w >= (unsigned long)addr_stack_size + 3 && g_w < (unsigned long)addr_stack_size + 3 + i) || message[g_w] == data[g_w - addr_stack_size - 3])",
                 "assigns": "i, __CPROVER_object_whole(message)", "decreases": "data_length - i"}],
         remove_bodies=["bidib_flush_impl", "bidib_add_to_buffer", "bidib_auto_flush", "bidib_flush", "bidib_buffer_message_without_data"],
         timeout=300, covers=2, min_obligations=20, replay=None,
         note="every address depth 0..3, type < 0x80, payload length up to the protocol maximum, numbering on/off"),
    Unit(name="C01.encode_without_data", src="units/C01/encoders.c",
         functions=["bidib_buffer_message_without_data", "bidib_buffer_message", "bidib_log_send_message"], props=["C01", "C05", "C18"],
         replace=["bidib_node_state_get_and_incr_send_seqnum", "bidib_extract_address", "bidib_node_try_send", "bidib_add_to_buffer"],
         loops=[{"function": "bidib_buffer_message_without_data", "anchor": r"for \(int i = 1; i <= addr_stack_size",
                 "invariants": "1 <= i && i <= addr_stack_size + 1 && message[0] == __CPROVER_loop_entry(message[0]) && "
                               "(!(i > 1) || message[1] == addr_stack[0]) && (!(i > 2) || message[2] == addr_stack[1]) && (!(i > 3) || message[3] == addr_stack[2]) && (!(i > 4) || message[4] == addr_stack[3])",
                 "assigns": "i, __CPROVER_object_whole(message)", "decreases": "addr_stack_size + 1 - i"}],
         remove_bodies=["bidib_flush_impl", "bidib_add_to_buffer", "bidib_auto_flush", "bidib_flush", "bidib_buffer_message_with_data"],
         timeout=300, covers=2, min_obligations=20, replay=None),
    Unit(name="C01.capacity", src="units/C01/capacity.c", functions=["bidib_state_packet_capacity"], props=["C01"],
         no_dfcc=True, covers=2, min_obligations=4, replay="units/C01/capacity.c", extra_flags=["--nondet-static"]),
]
