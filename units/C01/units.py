from vpkg.core import Unit
UNITS = [
    Unit(name="C01.crc_table", src="units/C01/crc_table.c", functions=["bidib_crc_array"], props=["C01", "C02"],
         no_dfcc=True, unwindset={"spec_crc8_step.0": 9}, unwind_reason="8 CRC bits", replay="units/C01/crc_table.c",
         note="loop-free after unwinding: complete over all 65536 (crc, byte) pairs"),
]
