from vpkg.core import Unit
from vpkg import csrc
_t = csrc.Tree()
_ss = [f.name for f in _t.by_file[csrc.REPO + "/src/state/bidib_state_setter.c"]]
def _u(name, define, keep, **kw):
    return Unit(name=name, src="units/C15/nodes.c", defines=[define], functions=keep, props=kw.pop("props", ["C15"]), no_dfcc=True,
                remove_bodies=[f for f in _ss if f not in keep], extra_flags=["--nondet-static", "--unwind", "5"], covers=1, min_obligations=4,
                stubbed_contracts=["bidib_state_get_board_ref_by_uniqueid"], **kw)
UNITS = [
    _u("C15.is_subnode", "VP_H_SUBNODE", ["bidib_state_is_subnode"], note="loop bounded by the 3 address levels: complete over all valid address pairs"),
    _u("C15.node_new", "VP_H_NODE_NEW", ["bidib_state_node_new"], note="loop-free: complete", props=["C15", "C09"]),
    _u("C15.node_lost", "VP_H_NODE_LOST", ["bidib_state_node_lost", "bidib_state_is_subnode"], kind="bounded", bound="3 configured boards with arbitrary addresses / class bits / connectivity (loop unwound completely for that size)"),
    Unit(name="C15.query_nodetab", src="units/C15/nodetab.c", functions=["bidib_state_query_nodetab"], props=["C15", "C20"], no_dfcc=True,
         kind="bounded", bound="node table of <= 2 rows, 3 configured boards, arbitrary answers incl. a table change at any row; loops unwound completely for that size",
         remove_bodies=[f.name for f in _t.by_file[csrc.REPO + "/src/state/bidib_state.c"] if f.name != "bidib_state_query_nodetab"],
         extra_flags=["--nondet-static", "--unwind", "9"], covers=2, min_obligations=6, timeout=600,
         stubbed_contracts=["bidib_read_intern_message (scripted arbitrary answers)", "bidib_state_get_board_ref_by_uniqueid", "bidib_send_nodetab_getall/getnext", "bidib_flush"]),
] + [
    Unit(name="C15.lookup_" + n, src="units/C15/lookups.c", defines=[d], functions=fns, props=pr, no_dfcc=True, kind="bounded",
         bound="table of at most 3 boards / trains (2 points + 2 signals on a board), arbitrary content; loops unwound completely",
         remove_bodies=[f.name for f in _t.by_file[csrc.REPO + "/src/state/bidib_state_getter.c"] if f.name not in fns],
         extra_flags=["--nondet-static", "--unwind", "5"], covers=2, min_obligations=4, timeout=300,
         note="closes the assumed lookup contracts of the setter / command units: the element returned is the one the key designates")
    for n, d, fns, pr in [
        ("by_nodeaddr", "VP_H_BY_NODEADDR", ["bidib_state_get_board_ref_by_nodeaddr"], ["C15", "C07", "C19"]),
        ("by_uniqueid", "VP_H_BY_UID", ["bidib_state_get_board_ref_by_uniqueid"], ["C15"]),
        ("by_id", "VP_H_BY_ID", ["bidib_state_get_board_ref"], ["C15", "C09"]),
        ("accessory_by_number", "VP_H_ACC_BY_NUMBER", ["bidib_state_get_board_accessory_mapping_ref_by_number", "bidib_state_get_board_ref_by_nodeaddr"], ["C07"]),
        ("segment_by_nodeaddr", "VP_H_SEG_BY_NODEADDR", ["bidib_state_get_segment_state_ref_by_nodeaddr", "bidib_state_get_board_ref_by_nodeaddr", "bidib_state_get_segment_state_ref"], ["C07", "C08", "C16"]),
        ("train_state_by_dccaddr", "VP_H_TRAIN_BY_DCC", ["bidib_state_get_train_state_ref_by_dccaddr", "bidib_state_get_train_state_ref"], ["C07", "C08"]),
    ]
]
