/* C15 / C07: the table lookups that every setter, getter and command relies on (in the other units they appear as the
 * assumed contract "NULL or an element"): here each is proved against its key specification on a bounded table.
 *   result != NULL  =>  it is an element of the table whose key matches (and, by node address: that is connected)
 *   result == NULL  =>  no element of the table matches
 * Tables: NB boards / trains with arbitrary content, ids single arbitrary characters. */
#include "vp_common.h"
#include "vp_syslog.h"
#include <pthread.h>
#define pthread_mutex_lock(m) 0
#define pthread_mutex_unlock(m) 0
#define pthread_rwlock_rdlock(m) 0
#define pthread_rwlock_wrlock(m) 0
#define pthread_rwlock_unlock(m) 0
#include "src/state/bidib_state_getter.c"
#include "vp_glib.h"
gpointer vp_q_fresh(GQueue *q) { return NULL; }
void vp_q_pushed(GQueue *q, gpointer e) {}
void vp_q_popped(GQueue *q, gpointer e) {}
#define NB 3
static t_bidib_board boards[NB]; static vp_garray v_boards; static GString s_id[NB]; static char c_id[NB][2];
static void mk(vp_garray *v, void *data, guint len, guint elt) { v->data = (gchar *)data; v->len = len; v->elt_size = elt; v->cap = len; }
static void mkid(GString *s, char *c) { char ch; __CPROVER_assume(ch != 0); c[0] = ch; c[1] = 0; s->str = c; s->len = 1; }
static void setup_boards(void) {
	guint n; __CPROVER_assume(n <= NB); mk(&v_boards, boards, n, sizeof boards[0]); bidib_boards = (GArray *)&v_boards;
	for (int b = 0; b < NB; b++) { mkid(&s_id[b], c_id[b]); boards[b].id = &s_id[b]; boards[b].connected = boards[b].connected ? 1 : 0; }
}
static int index_of(const void *p) { for (int b = 0; b < NB; b++) if (p == (const void *)&boards[b]) return b; return -1; }
static _Bool addr_eq(t_bidib_node_address x, t_bidib_node_address y) { return x.top == y.top && x.sub == y.sub && x.subsub == y.subsub; }
bool bidib_state_uids_equal(const t_bidib_unique_id_mod *const a, const t_bidib_unique_id_mod *const b) {   /* proved in C14.uids_equal */
	return a->class_id == b->class_id && a->class_id_ext == b->class_id_ext && a->vendor_id == b->vendor_id && a->product_id1 == b->product_id1 &&
	       a->product_id2 == b->product_id2 && a->product_id3 == b->product_id3 && a->product_id4 == b->product_id4;
}

void vp_harness(void) {
	setup_boards();
#if defined(VP_H_BY_NODEADDR)
	t_bidib_node_address a; t_bidib_board *r = bidib_state_get_board_ref_by_nodeaddr(a);
	int k = index_of(r); _Bool any = 0;
	for (unsigned b = 0; b < NB; b++) if (b < v_boards.len && boards[b].connected && addr_eq(boards[b].node_addr, a)) any = 1;
	VP_COVER(r != NULL && k == 2); VP_COVER(r == NULL && v_boards.len == 3 && addr_eq(boards[1].node_addr, a));
	if (r != NULL) __CPROVER_assert(k >= 0 && (unsigned)k < v_boards.len && boards[k].connected && addr_eq(boards[k].node_addr, a), "C15.lookup.by_node_address_returns_a_connected_board_with_that_address");
	else __CPROVER_assert(!any, "C15.lookup.by_node_address_null_only_if_no_connected_board_has_that_address");
#elif defined(VP_H_BY_UID)
	t_bidib_unique_id_mod u; t_bidib_board *r = bidib_state_get_board_ref_by_uniqueid(u);
	int k = index_of(r); _Bool any = 0;
	for (unsigned b = 0; b < NB; b++) if (b < v_boards.len && bidib_state_uids_equal(&u, &boards[b].unique_id)) any = 1;
	VP_COVER(r != NULL && k == 2); VP_COVER(r == NULL && v_boards.len == 3);
	if (r != NULL) __CPROVER_assert(k >= 0 && (unsigned)k < v_boards.len && bidib_state_uids_equal(&u, &boards[k].unique_id), "C15.lookup.by_unique_id_returns_the_board_with_that_unique_id");
	else __CPROVER_assert(!any, "C15.lookup.by_unique_id_null_only_if_unknown");
#elif defined(VP_H_BY_ID)
	char id[2]; __CPROVER_assume(id[0] != 0); id[1] = 0; t_bidib_board *r = bidib_state_get_board_ref(id);
	int k = index_of(r); _Bool any = 0;
	for (unsigned b = 0; b < NB; b++) if (b < v_boards.len && c_id[b][0] == id[0]) any = 1;
	VP_COVER(r != NULL && k == 2); VP_COVER(r == NULL && v_boards.len == 3);
	if (r != NULL) __CPROVER_assert(k >= 0 && (unsigned)k < v_boards.len && c_id[k][0] == id[0], "C15.lookup.by_id_returns_the_board_with_that_id");
	else __CPROVER_assert(!any, "C15.lookup.by_id_null_only_if_unknown");
#elif defined(VP_H_ACC_BY_NUMBER)
	/* board 0 is the one the (separately proved) node-address lookup returns, or none */
	static t_bidib_board_accessory_mapping pts[2], sigs[2]; static vp_garray v_p, v_s; guint np, ns; __CPROVER_assume(np <= 2 && ns <= 2);
	mk(&v_p, pts, np, sizeof pts[0]); mk(&v_s, sigs, ns, sizeof sigs[0]); boards[0].points_board = (GArray *)&v_p; boards[0].signals_board = (GArray *)&v_s;
	boards[0].connected = 1; __CPROVER_assume(v_boards.len >= 1);
	for (unsigned b = 1; b < NB; b++) __CPROVER_assume(!addr_eq(boards[b].node_addr, boards[0].node_addr));   /* connected boards have distinct addresses */
	_Bool known; t_bidib_node_address a; if (known) a = boards[0].node_addr; else for (unsigned b = 0; b < NB; b++) __CPROVER_assume(!addr_eq(boards[b].node_addr, a));
	uint8_t num; bool point = 0; _Bool p0 = point;
	t_bidib_board_accessory_mapping *r = bidib_state_get_board_accessory_mapping_ref_by_number(a, num, &point);
	_Bool in_p = 0, in_s = 0;
	for (unsigned q = 0; q < 2; q++) { if (q < np && pts[q].number == num) in_p = 1; if (q < ns && sigs[q].number == num) in_s = 1; }
	VP_COVER(r != NULL && !point); VP_COVER(r != NULL && point); VP_COVER(known && r == NULL); VP_COVER(!known);
	if (!known || (!in_p && !in_s)) __CPROVER_assert(r == NULL, "C07.lookup.accessory_by_number_null_for_unknown_board_or_number");
	else if (in_p) __CPROVER_assert(r != NULL && point && (r == &pts[0] || r == &pts[1]) && r->number == num, "C07.lookup.accessory_by_number_returns_the_point_with_that_number");
	else __CPROVER_assert(r != NULL && !point && (r == &sigs[0] || r == &sigs[1]) && r->number == num, "C07.lookup.accessory_by_number_returns_the_signal_with_that_number");
#elif defined(VP_H_SEG_BY_NODEADDR)
	/* boards with 2 segment mappings each (detector number -> segment id), 3 segment states; every static-lifetime object
	 * of the translation unit starts arbitrary (--nondet-static): a result that depends on anything but the current tables
	 * and arguments (e.g. a cache kept from an earlier session) fails the specification */
	static t_bidib_segment_mapping maps[NB][2]; static vp_garray v_m[NB]; static GString m_id[NB][2]; static char mc[NB][2][2];
	static t_bidib_segment_state_intern segs[3]; static vp_garray v_sg; static GString g_id[3]; static char gc[3][2]; guint nsg; __CPROVER_assume(nsg <= 3);
	for (int b = 0; b < NB; b++) { guint nm; __CPROVER_assume(nm <= 2); mk(&v_m[b], maps[b], nm, sizeof maps[0][0]); boards[b].segments = (GArray *)&v_m[b];
		for (int q = 0; q < 2; q++) { mkid(&m_id[b][q], mc[b][q]); maps[b][q].id = &m_id[b][q]; } }
	for (int q = 0; q < 3; q++) { gc[q][0] = (char)(0x61 + q); gc[q][1] = 0; g_id[q].str = gc[q]; g_id[q].len = 1; segs[q].id = &g_id[q]; }
	mk(&v_sg, segs, nsg, sizeof segs[0]); bidib_track_state.segments = (GArray *)&v_sg;
	/* configuration invariants (C14): connected boards have distinct addresses, detector numbers are distinct on a board */
	__CPROVER_assume(!addr_eq(boards[0].node_addr, boards[1].node_addr) && !addr_eq(boards[0].node_addr, boards[2].node_addr) && !addr_eq(boards[1].node_addr, boards[2].node_addr));
	for (int b = 0; b < NB; b++) __CPROVER_assume(maps[b][0].addr != maps[b][1].addr);
	t_bidib_node_address a; uint8_t num;
	t_bidib_segment_state_intern *r = bidib_state_get_segment_state_ref_by_nodeaddr(a, num);
	int ob = -1, om = -1;
	for (unsigned b = 0; b < NB; b++) if (b < v_boards.len && boards[b].connected && addr_eq(boards[b].node_addr, a)) ob = (int)b;
	if (ob >= 0) for (unsigned q = 0; q < 2; q++) if (q < v_m[ob].len && maps[ob][q].addr == num) om = (int)q;
	int os = -1; if (om >= 0) for (unsigned q = 0; q < 3; q++) if (q < nsg && gc[q][0] == mc[ob][om][0]) os = (int)q;
	VP_COVER(r != NULL && os == 2 && ob == 2); VP_COVER(r == NULL && ob >= 0 && om < 0); VP_COVER(ob < 0);
	__CPROVER_assert(r == (os >= 0 ? &segs[os] : NULL), "C07.lookup.segment_by_node_address_and_detector_number_is_the_configured_segment_of_the_current_tables_or_null");
#elif defined(VP_H_TRAIN_BY_DCC)
	static t_bidib_train trains[NB]; static vp_garray v_tr; static GString t_id[NB]; static char tc[NB][2]; guint nt; __CPROVER_assume(nt <= NB);
	static t_bidib_train_state_intern tstates[NB]; static vp_garray v_ts;
	for (int b = 0; b < NB; b++) { tc[b][0] = (char)(0x61 + b); tc[b][1] = 0; t_id[b].str = tc[b]; t_id[b].len = 1; trains[b].id = &t_id[b]; tstates[b].id = &t_id[b]; __CPROVER_assume(trains[b].dcc_addr.addrh <= 0x3F); }
	mk(&v_tr, trains, nt, sizeof trains[0]); bidib_trains = (GArray *)&v_tr; mk(&v_ts, tstates, nt, sizeof tstates[0]); bidib_track_state.trains = (GArray *)&v_ts;
	t_bidib_dcc_address d; t_bidib_train_state_intern *r = bidib_state_get_train_state_ref_by_dccaddr(d);
	int k = -1; for (int b = 0; b < NB; b++) if (r == &tstates[b]) k = b;
	_Bool any = 0; for (unsigned b = 0; b < NB; b++) if (b < nt && trains[b].dcc_addr.addrl == d.addrl && trains[b].dcc_addr.addrh == (d.addrh & 0x3F)) any = 1;
	VP_COVER(r != NULL && k == 2 && (d.addrh & 0xC0) != 0); VP_COVER(r == NULL && nt == 3);
	if (r != NULL) __CPROVER_assert(k >= 0 && (unsigned)k < nt && trains[k].dcc_addr.addrl == d.addrl && trains[k].dcc_addr.addrh == (d.addrh & 0x3F), "C07.lookup.train_state_by_dcc_address_is_the_state_of_the_train_with_that_address_orientation_bits_ignored");
	else __CPROVER_assert(!any, "C07.lookup.train_state_by_dcc_address_null_only_if_no_train_has_that_address");
#endif
}
