/* C15 / C20 (bounded stand-in): bidib_state_query_nodetab for a node table of <= 2 rows answered by a scripted interface.
 * The answers are arbitrary: count, per row local address + unique id, optionally a MSG_NODETAB_COUNT in the middle (table changed).
 * 3 configured boards; the unique-id lookup answers per row "unknown" or one of them.
 *   - every processed row connects exactly the board with that unique id at the queried interface's address extended by the local address
 *   - boards that no row names keep their address and connectivity
 *   - a table change during enumeration => returns true (restart)
 *   - every row but the first whose class has the interface bit is queued as sub-interface, configured or not */
#include "vp_common.h"
#include "vp_syslog.h"
#include <pthread.h>
#include <unistd.h>
#include <time.h>
#define pthread_rwlock_rdlock(m) 0
#define pthread_rwlock_unlock(m) 0
#define pthread_rwlock_wrlock(m) 0
#define pthread_mutex_lock(m) 0
#define pthread_mutex_unlock(m) 0
#define usleep(x) ((void)0)
#define clock_gettime(id, ts) ((ts)->tv_sec = 0, (ts)->tv_nsec = 0, 0)
#define static
#include "src/state/bidib_state.c"
#undef static
#include "vp_glib.h"
unsigned g_pushes; t_bidib_node_address g_pushed[4];
gpointer vp_q_fresh(GQueue *q) { return NULL; }
void vp_q_pushed(GQueue *q, gpointer e) { if (g_pushes < 4) g_pushed[g_pushes] = *(t_bidib_node_address *)e; g_pushes++; }
void vp_q_popped(GQueue *q, gpointer e) {}
#define NB 3
#define ROWS 2
t_bidib_board g_b[NB]; uint8_t g_count; _Bool g_change_at[ROWS]; uint8_t g_local[ROWS]; uint8_t g_uid[ROWS][7]; int g_hit[ROWS];
unsigned g_step, g_row, g_lookups, g_getall, g_getnext, g_flushes; uint8_t g_change_count;
uint8_t *bidib_read_intern_message(void) {
	uint8_t *m = malloc(16); __CPROVER_assume(m != NULL); m[0] = 15;
	if (g_step == 0) { m[1] = 1; m[4] = g_count; }                       /* MSG_NODETAB_COUNT(count) */
	else if (g_row < ROWS && g_change_at[g_row]) { m[1] = 1; g_change_at[g_row] = 0; m[4] = g_change_count; }   /* table changed: the new table may have ANY length, also the same as before */
	else { m[1] = 2; m[5] = g_row < ROWS ? g_local[g_row] : 0; for (int k = 0; k < 7; k++) m[6 + k] = g_row < ROWS ? g_uid[g_row][k] : 0; g_row++; }
	g_step++;
	return m;
}
uint8_t bidib_extract_msg_type(const uint8_t *const message) { return message[1] == 1 ? MSG_NODETAB_COUNT : MSG_NODETAB; }
int bidib_first_data_byte_index(const uint8_t *const message) { return 4; }
t_bidib_board *bidib_state_get_board_ref_by_uniqueid(t_bidib_unique_id_mod u) { unsigned r = g_lookups++; return (r < ROWS && g_hit[r] >= 0) ? &g_b[g_hit[r]] : NULL; }
void bidib_send_nodetab_getall(t_bidib_node_address a, unsigned int id) { g_getall++; }
void bidib_send_nodetab_getnext(t_bidib_node_address a, unsigned int id) { g_getnext++; }
void bidib_flush(void) { g_flushes++; }

void vp_harness(void) {
	t_bidib_node_address iface; __CPROVER_assume((iface.top != 0 || (iface.sub == 0 && iface.subsub == 0)) && (iface.sub != 0 || iface.subsub == 0) && iface.subsub == 0);
	__CPROVER_assume(g_count <= ROWS);
	t_bidib_board before[NB];
	for (int k = 0; k < NB; k++) { g_b[k].connected = g_b[k].connected ? 1 : 0; before[k] = g_b[k]; }
	for (int r = 0; r < ROWS; r++) { __CPROVER_assume(g_hit[r] >= -1 && g_hit[r] < NB); g_change_at[r] = g_change_at[r] ? 1 : 0; }
	__CPROVER_assume(g_hit[0] < 0 || g_hit[0] != g_hit[1]);     /* a unique id occurs once per table */
	_Bool change[ROWS] = {g_change_at[0], g_change_at[1]};
	GQueue *q = g_queue_new();
	g_step = g_row = g_lookups = g_getall = g_getnext = g_flushes = g_pushes = 0;
	_Bool r = bidib_state_query_nodetab(iface, q);
	VP_COVER(!r && g_count == 2);
	VP_COVER(r);
	/* rows processed before a table change (or all of them) */
	unsigned done = 0; _Bool restarted = 0;
	for (unsigned k = 0; k < ROWS; k++) if (k < g_count && !restarted) { if (change[k]) restarted = 1; else done++; }
	__CPROVER_assert(r == restarted, "C15.nodetab.table_change_during_enumeration_restarts_it");
	__CPROVER_assert(g_getall == 1 && g_getnext == g_count, "C15.nodetab.one_getall_and_one_getnext_per_announced_row");
	for (int k = 0; k < NB; k++) {
		int row = -1; for (unsigned j = 0; j < ROWS; j++) if (j < done && g_hit[j] == k) row = (int)j;
		if (row >= 0) {
			t_bidib_node_address e = iface; if (iface.top == 0) e.top = g_local[row]; else if (iface.sub == 0) e.sub = g_local[row]; else e.subsub = g_local[row];
			__CPROVER_assert(g_b[k].connected && g_b[k].node_addr.top == e.top && g_b[k].node_addr.sub == e.sub && g_b[k].node_addr.subsub == e.subsub,
			                 "C15.nodetab.board_named_by_a_row_connected_at_interface_address_plus_local_address");
		} else {
			__CPROVER_assert(g_b[k].connected == before[k].connected && g_b[k].node_addr.top == before[k].node_addr.top && g_b[k].node_addr.sub == before[k].node_addr.sub &&
			                 g_b[k].node_addr.subsub == before[k].node_addr.subsub, "C15.nodetab.boards_not_named_by_the_table_are_left_alone");
		}
	}
	unsigned want_push = (done >= 2 && (g_uid[1][0] & 0x80)) ? 1u : 0u;
	__CPROVER_assert(g_pushes == want_push, "C15.nodetab.every_sub_interface_row_is_queued_for_enumeration_configured_or_not");
}
