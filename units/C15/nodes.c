/* C15: bidib_state_is_subnode (all 2^48 address pairs), bidib_state_node_new, bidib_state_node_lost.
 * Lookup by unique id replaced by "NULL or one of the configured boards".  node_lost: bounded stand-in with 3 configured boards. */
#include "vp_common.h"
#include "vp_syslog.h"
#include <pthread.h>
#define pthread_mutex_lock(m) 0
#define pthread_mutex_unlock(m) 0
#define pthread_rwlock_rdlock(m) 0
#define pthread_rwlock_wrlock(m) 0
#define pthread_rwlock_unlock(m) 0
#define static
#include "src/state/bidib_state_setter.c"
#undef static
#include "vp_glib.h"
gpointer vp_q_fresh(GQueue *q) { return NULL; }
void vp_q_pushed(GQueue *q, gpointer e) {}
void vp_q_popped(GQueue *q, gpointer e) {}
#define NB 3
t_bidib_board g_boards[NB]; int g_hit;   /* index returned by the unique-id lookup, -1 = unknown id */
t_bidib_board *bidib_state_get_board_ref_by_uniqueid(t_bidib_unique_id_mod unique_id) { return g_hit < 0 ? NULL : &g_boards[g_hit]; }

static unsigned depth(t_bidib_node_address a) { return a.top == 0 ? 0 : a.sub == 0 ? 1 : a.subsub == 0 ? 2 : 3; }
static _Bool valid(t_bidib_node_address a) { return (a.top != 0 || (a.sub == 0 && a.subsub == 0)) && (a.sub != 0 || a.subsub == 0); }
static _Bool spec_beneath(t_bidib_node_address p, t_bidib_node_address c) {   /* p is a proper prefix of c */
	unsigned dp = depth(p), dc = depth(c);
	if (dp >= dc) return 0;
	return (dp < 1 || p.top == c.top) && (dp < 2 || p.sub == c.sub);
}

#ifdef VP_H_SUBNODE
void vp_harness(void) {
	t_bidib_node_address a, b;
	__CPROVER_assume(valid(a) && valid(b));
	_Bool r = bidib_state_is_subnode(a, b);
	VP_COVER(r && depth(a) == 2);
	__CPROVER_assert(r == spec_beneath(a, b), "C15.is_subnode.true_iff_first_address_is_a_proper_prefix_of_the_second");
}
#endif
#ifdef VP_H_NODE_NEW
void vp_harness(void) {
	VP_IN(int, g_hit); __CPROVER_assume(g_hit >= -1 && g_hit < NB);
	t_bidib_node_address iface; uint8_t local; t_bidib_unique_id_mod uid;
	__CPROVER_assume(valid(iface) && depth(iface) <= 2 && local != 0);
	t_bidib_board before[NB]; for (int k = 0; k < NB; k++) { g_boards[k].connected = g_boards[k].connected ? 1 : 0; before[k] = g_boards[k]; }
	bidib_state_node_new(iface, local, uid);
	VP_COVER(g_hit >= 0 && depth(iface) == 1);
	for (int k = 0; k < NB; k++) {
		if (k == g_hit) {
			t_bidib_node_address e = iface; if (depth(iface) == 0) e.top = local; else if (depth(iface) == 1) e.sub = local; else e.subsub = local;
			__CPROVER_assert(g_boards[k].connected && g_boards[k].node_addr.top == e.top && g_boards[k].node_addr.sub == e.sub && g_boards[k].node_addr.subsub == e.subsub,
			                 "C15.node_new.board_connected_at_interface_address_extended_by_local_address");
		} else {
			__CPROVER_assert(g_boards[k].connected == before[k].connected && g_boards[k].node_addr.top == before[k].node_addr.top && g_boards[k].node_addr.sub == before[k].node_addr.sub &&
			                 g_boards[k].node_addr.subsub == before[k].node_addr.subsub, "C15.node_new.other_boards_and_unknown_ids_change_nothing");
		}
	}
}
#endif
#ifdef VP_H_NODE_LOST
void vp_harness(void) {
	VP_IN(int, g_hit); __CPROVER_assume(g_hit >= -1 && g_hit < NB);
	t_bidib_unique_id_mod uid;
	t_bidib_board before[NB];
	for (int k = 0; k < NB; k++) { g_boards[k].connected = g_boards[k].connected ? 1 : 0; __CPROVER_assume(valid(g_boards[k].node_addr)); before[k] = g_boards[k]; }
	static vp_garray va; va.data = (gchar *)g_boards; va.len = NB; va.elt_size = sizeof g_boards[0];
	bidib_boards = (GArray *)&va;
	bidib_state_node_lost(uid);
	VP_COVER(g_hit >= 0 && (before[g_hit].unique_id.class_id & 0x80));
	for (int k = 0; k < NB; k++) {
		_Bool lost = g_hit >= 0 && (k == g_hit || ((before[g_hit].unique_id.class_id & 0x80) && spec_beneath(before[g_hit].node_addr, before[k].node_addr)));
		__CPROVER_assert(g_boards[k].connected == (lost ? 0 : before[k].connected), "C15.node_lost.board_and_everything_beneath_an_interface_disconnected_nothing_else");
	}
}
#endif
