/* Scenario replay for finding D5 (C03): 9 requests (table response size 6 each, budget 48) to a silent node: 8 go out, the 9th is
 * held back.  After the 2-second expiry an unrelated message from that node arrives: the 8 outstanding requests expire and the budget
 * is free again - the held message must now be handed to the transmit buffer.  Before the fix it stays stranded. */
#include <stdio.h>
#include <stdint.h>
#include <string.h>
#include <unistd.h>
#include <pthread.h>
#include "include/bidib.h"
extern const uint8_t bidib_crc_array[256];
static uint8_t rx[16]; static volatile int rx_len, rx_pos; static pthread_mutex_t m = PTHREAD_MUTEX_INITIALIZER;
static volatile int magic_on_wire;
static uint8_t rd(int *ok) { uint8_t b = 0; pthread_mutex_lock(&m); if (rx_pos < rx_len) { b = rx[rx_pos++]; *ok = 1; } else *ok = 0; pthread_mutex_unlock(&m); return b; }
static void wr(uint8_t *b, int32_t n) { for (int i = 0; i + 1 < n; i++) if (b[i] == 0x03 || 1) ; /* count MSG_SYS_GET_MAGIC (0x01) messages: len 03, addr 00, seq, type 01 */
	for (int i = 0; i + 3 < n; i++) if (b[i] == 0x03 && b[i + 1] == 0x00 && b[i + 3] == 0x01) magic_on_wire++; }
int main(void) {
	setvbuf(stdout, NULL, _IONBF, 0);
	bidib_set_lowlevel_debug_mode(true);
	if (bidib_start_pointer(rd, wr, NULL, 0)) return 3;
	t_bidib_node_address a = {0, 0, 0};
	for (int i = 0; i < 9; i++) bidib_send_sys_get_magic(a, 0);
	bidib_flush();
	printf("on the wire before expiry: %d of 9\n", magic_on_wire);
	sleep(3);
	/* unrelated uplink message from node 0: MSG_SYS_PONG (0x82), seq 0 */
	uint8_t msg[] = {0x03, 0x00, 0x00, 0x82}; uint8_t crc = 0; for (int i = 0; i < 4; i++) crc = bidib_crc_array[msg[i] ^ crc];
	pthread_mutex_lock(&m); rx[0] = 0xFE; memcpy(rx + 1, msg, 4); rx[5] = crc; rx[6] = 0xFE; rx_len = 7; rx_pos = 0; pthread_mutex_unlock(&m);
	sleep(1);
	bidib_flush();
	int got = magic_on_wire;
	bidib_stop();
	printf("on the wire after expiry + unrelated message: %d of 9\n", got);
	if (got != 9) { printf("SCENARIO-FAIL: the held message was not released although the budget is free\n"); return 1; }
	printf("SCENARIO-PASS\n"); return 0;
}
