/* Scenario replay for finding D23 (C04): the interface node itself (address 0.0.0) reports MSG_STALL = 1.
 * Every node is beneath it, so nothing may reach the wire until it reports MSG_STALL = 0.  Before the fix the ancestor walk of
 * bidib_node_stall_ready stops before the interface address and a message to node 1 is transmitted anyway. */
#include <stdio.h>
#include <stdint.h>
#include <string.h>
#include <unistd.h>
#include <pthread.h>
#include "include/bidib.h"
extern const uint8_t bidib_crc_array[256];
static uint8_t rx[16]; static volatile int rx_len, rx_pos; static pthread_mutex_t m = PTHREAD_MUTEX_INITIALIZER;
static volatile int to_node1;
static uint8_t rd(int *ok) { uint8_t b = 0; pthread_mutex_lock(&m); if (rx_pos < rx_len) { b = rx[rx_pos++]; *ok = 1; } else *ok = 0; pthread_mutex_unlock(&m); return b; }
static void wr(uint8_t *b, int32_t n) { for (int i = 0; i + 4 < n; i++) if (b[i] == 0x04 && b[i + 1] == 0x01 && b[i + 2] == 0x00 && b[i + 4] == 0x01) to_node1++; }
static void feed(uint8_t stall) {
	uint8_t msg[] = {0x04, 0x00, 0x00, MSG_STALL, stall}; uint8_t crc = 0; for (int i = 0; i < 5; i++) crc = bidib_crc_array[msg[i] ^ crc];
	pthread_mutex_lock(&m); rx[0] = 0xFE; memcpy(rx + 1, msg, 5); rx[6] = crc; rx[7] = 0xFE; rx_len = 8; rx_pos = 0; pthread_mutex_unlock(&m);
	sleep(1);
}
int main(void) {
	setvbuf(stdout, NULL, _IONBF, 0);
	bidib_set_lowlevel_debug_mode(true);
	if (bidib_start_pointer(rd, wr, NULL, 0)) return 3;
	feed(1);                                   /* interface: STALL = 1 */
	t_bidib_node_address n1 = {1, 0, 0};
	bidib_send_sys_get_magic(n1, 0);
	bidib_flush();
	int during = to_node1;
	feed(0);                                   /* interface: STALL = 0 */
	bidib_flush();
	int after = to_node1;
	bidib_stop();
	printf("messages to node 1 on the wire: while the interface is stalled %d, after unstall %d\n", during, after);
	if (during != 0 || after != 1) { printf("SCENARIO-FAIL\n"); return 1; }
	printf("SCENARIO-PASS\n"); return 0;
}
