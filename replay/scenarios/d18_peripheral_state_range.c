/* Scenario replay for finding D18 (C09): bidib_set_train_peripheral documents "@param state the new state, 0/1 ... @return 0 for valid
 * params, otherwise 1".  With state = 2 the value is shifted into the function group unchecked: the NEIGHBOURING function (bit + 1)
 * is switched on, the requested one off, and 0 is returned.  Lookups and the drive message are replaced by fixed stand-ins; everything
 * else is the real command code. */
#include <stdio.h>
#include <stdint.h>
#include <stdbool.h>
#include <glib.h>
#include "include/highlevel/bidib_highlevel_util.h"
#define syslog_libbidib(...) ((void)0)
#include "src/highlevel/bidib_highlevel_setter.c"
static t_bidib_train train; static t_bidib_board board; static t_bidib_train_state_intern ts; static t_bidib_train_peripheral_state ps[2];
static int sends; static t_bidib_cs_drive_mod last;
t_bidib_train *bidib_state_get_train_ref(const char *t) { return &train; }
t_bidib_board *bidib_state_get_board_ref(const char *b) { return &board; }
t_bidib_train_state_intern *bidib_state_get_train_state_ref(const char *t) { return &ts; }
t_bidib_train_peripheral_state *bidib_state_get_train_peripheral_state_by_bit(const t_bidib_train_state_intern *s, uint8_t bit) { return bit < 2 ? &ps[bit] : NULL; }
void bidib_send_cs_drive_intern(t_bidib_node_address a, t_bidib_cs_drive_mod p, unsigned int action_id, bool lock) { sends++; last = p; }
unsigned int bidib_get_and_incr_action_id(void) { return 1; }
int main(void) {
	pthread_rwlock_init(&bidib_trains_rwlock, NULL); pthread_rwlock_init(&bidib_boards_rwlock, NULL); pthread_mutex_init(&trackstate_trains_mutex, NULL);
	train.id = g_string_new("t"); train.dcc_speed_steps = 126; train.peripherals = g_array_new(FALSE, FALSE, sizeof(t_bidib_train_peripheral_mapping));
	t_bidib_train_peripheral_mapping m0 = { g_string_new("light"), 0 }, m1 = { g_string_new("horn"), 1 };
	g_array_append_val(train.peripherals, m0); g_array_append_val(train.peripherals, m1);
	board.id = g_string_new("o"); board.connected = true; board.unique_id.class_id = 1 << 4; ts.id = train.id;
	ps[0].id = "light"; ps[0].state = 1; ps[1].id = "horn"; ps[1].state = 0;
	int r = bidib_set_train_peripheral("t", "light", 2, "o");
	printf("state=2: return %d, drive messages %d, function byte 0x%02x (light was on, horn off)\n", r, sends, sends ? last.function1 : 0);
	if (r != 1 || sends != 0) { printf("SCENARIO-FAIL: an out-of-range state is accepted%s\n", (sends && (last.function1 & 2)) ? " and switches the horn on" : ""); return 1; }
	printf("SCENARIO-PASS\n"); return 0;
}
