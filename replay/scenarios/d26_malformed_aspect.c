/* Scenario replay for finding D26 (C13): a track configuration in which the SECOND aspect of a point misspells its first key
 * ("name:" instead of "id:").  Starting the library must return 1 (rejected); before the fix the parser's duplicate check
 * dereferences the id of the half-built aspect (NULL) and the process dies with SIGSEGV. */
#include <stdio.h>
#include <stdint.h>
#include "include/bidib.h"
static uint8_t rd(int *ok) { *ok = 0; return 0; }
static void wr(uint8_t *b, int32_t n) { (void)b; (void)n; }
int main(int argc, char **argv) {
	setvbuf(stdout, NULL, _IONBF, 0);
	int r = bidib_start_pointer(rd, wr, argv[1], 0);
	printf("bidib_start_pointer returned %d\n", r);
	if (r != 1) { printf("SCENARIO-FAIL: malformed configuration not rejected\n"); return 1; }
	printf("SCENARIO-PASS\n"); return 0;
}
