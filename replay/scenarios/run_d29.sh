#!/bin/sh
R=${1:-/repo}
W=$(mktemp -d /verif/work/scn.XXXXXX); trap 'rm -rf "$W"' EXIT
gcc -g -O0 -w -fsanitize=address -I$R -I$R/include -I$R/src -I/verif/replay/scenarios/d28 $(pkg-config --cflags glib-2.0) /verif/replay/scenarios/d29_reset_leaks_aspect_ids.c $R/src/*/*.c -o $W/scn -lglib-2.0 -lpthread -lyaml 2>&1 | tail -3
ASAN_OPTIONS=detect_leaks=1:exitcode=23 timeout 120 $W/scn /verif/replay/scenarios/d28/config > $W/out 2>&1; rc=$?
grep -a "point1 aspect\|SCENARIO\|Direct leak\|bidib_state_accessory_state\|SUMMARY" $W/out | head -8
[ $rc -eq 23 ] && echo "SCENARIO-FAIL: LeakSanitizer reports memory that bidib_stop did not release"
exit 0
