#!/bin/sh
# usage: run_d2.sh <repo dir>   — builds the real sources of <repo> and runs the duplicate-DCC-point start
set -e
R=${1:-/repo}
W=$(mktemp -d /verif/work/scn.XXXXXX)
trap 'rm -rf "$W"' EXIT
cp -r $R/test/unit/state_tests_config $W/cfg
python3 - "$W/cfg/bidib_track_config.yml" <<'PY'
import sys,re
p=sys.argv[1]; s=open(p).read()
i=s.index("    points-dcc:")
j=s.index("      - id:", i)
k=s.index("      - id:", j+5) if "      - id:" in s[j+5:] else len(s)
# duplicate the first DCC point entry (same id, same address)
m=re.search(r"(      - id: \w+\n(?:        .*\n|          .*\n|            .*\n|              .*\n|                .*\n)+)", s[j:])
blk=m.group(1)
s=s[:j]+blk+s[j:]
open(p,"w").write(s)
PY
gcc -g -O0 -w -I$R -I$R/include $(pkg-config --cflags glib-2.0) /verif/replay/scenarios/d2_dup_dcc_point.c $R/src/*/*.c -o $W/scn -lglib-2.0 -lpthread -lyaml
$W/scn $W/cfg/
