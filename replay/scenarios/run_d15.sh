#!/bin/sh
R=${1:-/repo}
W=$(mktemp -d /verif/work/scn.XXXXXX); trap 'rm -rf "$W"' EXIT
SRCS=$(ls $R/src/*/*.c | grep -v bidib_highlevel_getter.c)
gcc -g -O0 -w -fsanitize=address -ftrivial-auto-var-init=pattern -I$R -I$R/include $(pkg-config --cflags glib-2.0) /verif/replay/scenarios/d15_free_unknown_query.c $SRCS -o $W/scn -lglib-2.0 -lpthread -lyaml 2>&1 | tail -3
ASAN_OPTIONS=detect_leaks=0 $W/scn 2>&1 | grep -E "SCENARIO|available=|ERROR: AddressSanitizer|SEGV" | head -4
