/* Scenario replay for finding D29 (C16 "releases all memory it allocated"): bidib_state_reset (run by every bidib_send_sys_reset)
 * overwrites the aspect-id strings of all accessories, peripherals and reversers with NULL without freeing them; what feedback had
 * stored before the reset is lost and never released, not even by bidib_stop.  Built with AddressSanitizer/LeakSanitizer:
 * start against the simulated interface of d28/, feedback for point1 (aspect "normal"), reset of the tracked state, stop.
 * Exit 0: no leak; LeakSanitizer makes the process exit 23 otherwise. */
#include <stdio.h>
#include <stdlib.h>
#include <unistd.h>
#include "sim.h"
#include "src/state/bidib_state_intern.h"
int main(int argc, char **argv) {
	setvbuf(stdout, NULL, _IONBF, 0);
	const uint8_t uid[7] = {0xDA, 0x00, 0x0D, 0x68, 0x00, 0x01, 0xEE};
	sim_add_node(0, 0, 0, uid); sim_rx_delay_us = 20000;
	if (bidib_start_pointer(sim_read, sim_write, argv[1], 0)) { printf("start failed (set-up problem)\n"); return 3; }
	uint8_t iface[4] = {0, 0, 0, 0};
	uint8_t st[5] = {0x02, 0x01, 0x02, 0x00, 0x00};            /* MSG_ACCESSORY_STATE: point1 (number 2) reached aspect 1 = "normal" */
	sim_inject(iface, MSG_ACCESSORY_STATE, st, 5);
	usleep(600000);
	t_bidib_unified_accessory_state_query q = bidib_get_point_state("point1");
	printf("point1 aspect after feedback: %s\n", q.known && q.board_accessory_state.state_id ? q.board_accessory_state.state_id : "?");
	bidib_free_unified_accessory_state_query(q);
	bidib_state_reset();                                       /* what bidib_send_sys_reset does to the tracked state */
	bidib_stop();
	printf("SCENARIO-PASS (no leak reported at exit)\n");
	return 0;
}
