/* Scenario replay for finding D15 (C17): bidib_get_peripheral_state / bidib_get_reverser_state for an UNKNOWN id leave
 * query.data.state_id uninitialised; the documented free function then frees whatever the stack held.
 * Built with -ftrivial-auto-var-init=pattern so that "uninitialised" is a recognisable non-NULL value (any value is possible). */
#include <stdio.h>
#include <stdint.h>
#include <stdbool.h>
#include "include/highlevel/bidib_highlevel_util.h"
#define syslog_libbidib(...) ((void)0)
#include "src/highlevel/bidib_highlevel_getter.c"
int main(void) {
	setvbuf(stdout, NULL, _IONBF, 0);
	pthread_mutex_init(&trackstate_peripherals_mutex, NULL); pthread_mutex_init(&trackstate_reversers_mutex, NULL);
	bidib_track_state.peripherals = g_array_new(FALSE, FALSE, sizeof(t_bidib_peripheral_state));
	bidib_track_state.reversers = g_array_new(FALSE, FALSE, sizeof(t_bidib_reverser_state));
	t_bidib_peripheral_state_query q = bidib_get_peripheral_state("no-such-peripheral");
	printf("available=%d state_id=%p\n", q.available, (void *)q.data.state_id);
	bidib_free_peripheral_state_query(q);
	t_bidib_reverser_state_query r = bidib_get_reverser_state("no-such-reverser");
	bidib_free_reverser_state_query(r);
	printf("SCENARIO-PASS (query for an unknown id freed safely)\n");
	return 0;
}
