#!/bin/sh
R=${1:-/repo}
W=$(mktemp -d /verif/work/scn.XXXXXX); trap 'rm -rf "$W"' EXIT
CF="-g -O0 -w -I$R -I$R/include $(pkg-config --cflags glib-2.0)"
SRCS=$(ls $R/src/*/*.c | grep -v "bidib_highlevel_setter.c")
gcc $CF /verif/replay/scenarios/d18_peripheral_state_range.c $SRCS -o $W/scn -Wl,--allow-multiple-definition -lglib-2.0 -lpthread -lyaml 2>&1 | tail -3
$W/scn 2>&1 | tail -3
