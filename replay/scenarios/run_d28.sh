#!/bin/sh
R=${1:-/repo}
W=$(mktemp -d /verif/work/scn.XXXXXX); trap 'rm -rf "$W"' EXIT
gcc -g -O0 -w -I$R -I$R/include -I$R/src -I/verif/replay/scenarios/d28 $(pkg-config --cflags glib-2.0) /verif/replay/scenarios/d28_wait_with_boards_lock.c $R/src/*/*.c -o $W/scn -lglib-2.0 -lpthread -lyaml 2>&1 | tail -3
echo "control (no node logs in):"; D28_NO_LOGIN=1 timeout 60 $W/scn /verif/replay/scenarios/d28/config 2>&1 | tail -2
echo "node logs in while the features are being set:"; timeout 60 $W/scn /verif/replay/scenarios/d28/config 2>&1 | tail -2
