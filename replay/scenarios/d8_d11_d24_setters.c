/* Scenario replays (ASan) for three setter defects that need arbitrary wire values; the real setter code is #included, the
 * tracked-state lookups are replaced by one fixed element each.
 *  d11: MSG_CS_STATE with state byte 0x0d indexes the 9-entry bidib_cs_state_string_mapping (global-buffer-overflow read)
 *  d8 : MSG_BOOST_DIAGNOSTIC list {0x01, 0x02, 0x00}: the stride-1 walk re-reads the value byte 0x02 as the key "temperature"
 *       (temp_known becomes true although no temperature was reported) and reads one byte past the 3-byte list
 *  d24: MSG_VENDOR whose embedded name length (200) exceeds the 4-byte list (heap-buffer-overflow read)
 * usage: scn d8|d11|d24 */
#include <stdio.h>
#include <stdlib.h>
#include <string.h>
#include <stdint.h>
#include <stdbool.h>
#include "src/state/bidib_state_setter.c"
static t_bidib_track_output_state to; static t_bidib_booster_state boo;
t_bidib_track_output_state *bidib_state_get_track_output_state_ref_by_nodeaddr(t_bidib_node_address a) { return &to; }
t_bidib_booster_state *bidib_state_get_booster_state_ref_by_nodeaddr(t_bidib_node_address a) { return &boo; }
t_bidib_reverser_mapping *bidib_state_get_reverser_mapping_ref_by_cv(t_bidib_node_address a, const char *cv) { return NULL; }
int main(int argc, char **argv) {
	if (argc < 2) return 3;
	t_bidib_node_address a = {0, 0, 0};
	pthread_mutex_init(&trackstate_track_outputs_mutex, NULL); pthread_mutex_init(&trackstate_boosters_mutex, NULL);
	pthread_mutex_init(&trackstate_reversers_mutex, NULL); pthread_rwlock_init(&bidib_boards_rwlock, NULL);
	to.id = "out"; boo.id = "boo";
	if (!strcmp(argv[1], "d11")) { bidib_state_cs_state(a, 0x0d, 0); }
	if (!strcmp(argv[1], "d8")) {
		uint8_t *l = malloc(3); l[0] = 0x01; l[1] = 0x02; l[2] = 0x00;
		bidib_state_boost_diagnostic(a, 3, l, 0);
		if (boo.data.temp_known) { printf("SCENARIO-FAIL: voltage value 0x02 was read as the key 'temperature'\n"); return 1; }
	}
	if (!strcmp(argv[1], "d24")) { uint8_t *l = malloc(4); l[0] = 200; l[1] = 'a'; l[2] = 1; l[3] = '0'; bidib_state_vendor(a, 4, l, 0); }
	printf("SCENARIO-PASS %s\n", argv[1]); return 0;
}
