/* Scenario replay for finding D16 (C17): the whole-track snapshot does not copy booster temp_known: the field of the result is
 * whatever malloc returned.  Run with MALLOC_PERTURB_=255 (fresh heap bytes are 0x00) against a booster whose temp_known is true. */
#include <stdio.h>
#include <stdint.h>
#include <stdbool.h>
#include "include/highlevel/bidib_highlevel_util.h"
#define syslog_libbidib(...) ((void)0)
#include "src/highlevel/bidib_highlevel_getter.c"
int main(void) {
	bidib_track_state.boosters = g_array_new(FALSE, FALSE, sizeof(t_bidib_booster_state));
	t_bidib_booster_state b; memset(&b, 0, sizeof b); b.id = "b"; b.data.temp_known = true; b.data.temp_celsius = 40;
	g_array_append_val(bidib_track_state.boosters, b);
	t_bidib_booster_state *r = bidib_get_state_boosters();
	if (r[0].data.temp_known != true) { printf("SCENARIO-FAIL: snapshot temp_known=%d, tracked state has true\n", r[0].data.temp_known); return 1; }
	printf("SCENARIO-PASS\n"); return 0;
}
