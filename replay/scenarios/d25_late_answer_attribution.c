/* Scenario replay for finding D25 (C03): two MSG_FEATURE_GETNEXT requests (worst-case answer 6 bytes each; accepted answers
 * MSG_FEATURE, MSG_FEATURE_NA) to node 0.  H is sent, not answered for 3 s (expired); N is sent; then H's late answer
 * MSG_FEATURE_NA arrives.  N is neither answered nor expired, so it still occupies 6 of the 48 bytes: of 8 further requests
 * only 7 may go out (6 + 7*6 = 48), the 8th must be held back.  Before the fix the late answer is not matched against H
 * (MSG_FEATURE_NA is H's SECOND accepted type, the expiry test fires first), H is dropped as expired and the same answer is then
 * matched against N: the budget counter drops to 0 and all 8 go out - 54 bytes outstanding. */
#include <stdio.h>
#include <stdint.h>
#include <string.h>
#include <unistd.h>
#include <pthread.h>
#include "include/bidib.h"
extern const uint8_t bidib_crc_array[256];
static uint8_t rx[16]; static volatile int rx_len, rx_pos; static pthread_mutex_t m = PTHREAD_MUTEX_INITIALIZER;
static volatile int getnext_on_wire;
static uint8_t rd(int *ok) { uint8_t b = 0; pthread_mutex_lock(&m); if (rx_pos < rx_len) { b = rx[rx_pos++]; *ok = 1; } else *ok = 0; pthread_mutex_unlock(&m); return b; }
static void wr(uint8_t *b, int32_t n) { for (int i = 0; i + 3 < n; i++) if (b[i] == 0x03 && b[i + 1] == 0x00 && b[i + 3] == 0x11) getnext_on_wire++; }
int main(void) {
	setvbuf(stdout, NULL, _IONBF, 0);
	bidib_set_lowlevel_debug_mode(true);
	if (bidib_start_pointer(rd, wr, NULL, 0)) return 3;
	t_bidib_node_address a = {0, 0, 0};
	bidib_send_feature_getnext(a, 0); bidib_flush();          /* H */
	sleep(3);                                                  /* H expires (2 s) */
	bidib_send_feature_getnext(a, 0); bidib_flush();          /* N, young */
	uint8_t msg[] = {0x04, 0x00, 0x00, 0x91, 0xFF};            /* MSG_FEATURE_NA from node 0: H's late answer */
	uint8_t crc = 0; for (int i = 0; i < 5; i++) crc = bidib_crc_array[msg[i] ^ crc];
	pthread_mutex_lock(&m); rx[0] = 0xFE; memcpy(rx + 1, msg, 5); rx[6] = crc; rx[7] = 0xFE; rx_len = 8; rx_pos = 0; pthread_mutex_unlock(&m);
	usleep(500000);
	int before = getnext_on_wire;
	for (int i = 0; i < 8; i++) bidib_send_feature_getnext(a, 0);
	bidib_flush();
	int more = getnext_on_wire - before;
	printf("requests on the wire before: %d (H, N); admitted of 8 further requests while N is unanswered and young: %d\n", before, more);
	bidib_stop();
	if (more > 7) { printf("SCENARIO-FAIL: %d bytes of worst-case answers outstanding (budget 48)\n", 6 + 6 * more); return 1; }
	printf("SCENARIO-PASS\n"); return 0;
}
