#!/bin/sh
R=${1:-/repo}
W=$(mktemp -d /verif/work/scn.XXXXXX); trap 'rm -rf "$W"' EXIT
SRCS=$(ls $R/src/*/*.c | grep -v "bidib_highlevel_getter.c")
gcc -g -O0 -w -I$R -I$R/include $(pkg-config --cflags glib-2.0) /verif/replay/scenarios/d16_booster_snapshot.c $SRCS -o $W/scn -lglib-2.0 -lpthread -lyaml 2>&1 | tail -3
MALLOC_PERTURB_=255 $W/scn 2>&1 | tail -2
