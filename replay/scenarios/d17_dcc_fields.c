/* Scenario replay for finding D17 (C17): for a DCC accessory the single-entity getters do not report output_controls_timing and
 * ack (and bidib_get_signal_state not coil_on), which the whole-track snapshot (struct copy) does report: the two views disagree.
 * The tracked-state lookups are replaced by a fixed DCC accessory; everything else is the real getter code. */
#include <stdio.h>
#include <stdint.h>
#include <stdbool.h>
#include "include/highlevel/bidib_highlevel_util.h"
#define syslog_libbidib(...) ((void)0)
#include "src/highlevel/bidib_highlevel_getter.c"
static t_bidib_dcc_accessory_state acc;
t_bidib_board_accessory_state *bidib_state_get_board_accessory_state_ref(const char *a, bool p) { return NULL; }
t_bidib_dcc_accessory_state *bidib_state_get_dcc_accessory_state_ref(const char *a, bool p) { return &acc; }
int main(void) {
	pthread_mutex_init(&trackstate_accessories_mutex, NULL);
	acc.id = "p"; acc.data.state_id = "normal"; acc.data.coil_on = true; acc.data.output_controls_timing = true; acc.data.ack = BIDIB_DCC_ACK_ACCEPTED_SOON;
	t_bidib_unified_accessory_state_query q = bidib_get_point_state("p");
	t_bidib_unified_accessory_state_query s = bidib_get_signal_state("p");
	int bad = 0;
	if (q.dcc_accessory_state.output_controls_timing != acc.data.output_controls_timing || q.dcc_accessory_state.ack != acc.data.ack) { printf("point getter drops output_controls_timing/ack\n"); bad = 1; }
	if (s.dcc_accessory_state.coil_on != acc.data.coil_on || s.dcc_accessory_state.output_controls_timing != acc.data.output_controls_timing || s.dcc_accessory_state.ack != acc.data.ack) { printf("signal getter drops coil_on/output_controls_timing/ack\n"); bad = 1; }
	if (bad) { printf("SCENARIO-FAIL\n"); return 1; }
	printf("SCENARIO-PASS\n"); return 0;
}
