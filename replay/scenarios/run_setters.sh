#!/bin/sh
# usage: run_setters.sh <repo> d8|d11|d24
R=${1:-/repo}
W=$(mktemp -d /verif/work/scn.XXXXXX); trap 'rm -rf "$W"' EXIT
CF="-g -O0 -w -fsanitize=address -I$R -I$R/include $(pkg-config --cflags glib-2.0)"
gcc $CF -Dbidib_state_get_track_output_state_ref_by_nodeaddr=vp_r1 -Dbidib_state_get_booster_state_ref_by_nodeaddr=vp_r2 -Dbidib_state_get_reverser_mapping_ref_by_cv=vp_r3 -c $R/src/state/bidib_state_getter.c -o $W/sg.o
SRCS=$(ls $R/src/*/*.c | grep -v "bidib_state_setter.c\|bidib_state_getter.c")
gcc $CF /verif/replay/scenarios/d8_d11_d24_setters.c $W/sg.o $SRCS -o $W/scn -lglib-2.0 -lpthread -lyaml 2>&1 | tail -3
ASAN_OPTIONS=detect_leaks=0 $W/scn $2 2>&1 | grep -E "SCENARIO|ERROR: AddressSanitizer" | head -2
