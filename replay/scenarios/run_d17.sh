#!/bin/sh
R=${1:-/repo}
W=$(mktemp -d /verif/work/scn.XXXXXX); trap 'rm -rf "$W"' EXIT
CF="-g -O0 -w -I$R -I$R/include $(pkg-config --cflags glib-2.0)"
gcc $CF -Dbidib_state_get_board_accessory_state_ref=vp_real_bacc_ref -Dbidib_state_get_dcc_accessory_state_ref=vp_real_dacc_ref -c $R/src/state/bidib_state_getter.c -o $W/sg.o
SRCS=$(ls $R/src/*/*.c | grep -v "bidib_highlevel_getter.c\|bidib_state_getter.c")
gcc $CF /verif/replay/scenarios/d17_dcc_fields.c $W/sg.o $SRCS -o $W/scn -lglib-2.0 -lpthread -lyaml 2>&1 | tail -3
$W/scn 2>&1 | tail -3
