#!/bin/sh
# D26 (C13): malformed track configurations that crashed the parser instead of being rejected.  usage: run_d26.sh [repo] [variant ...]
R=${1:-/repo}; shift 2>/dev/null
W=$(mktemp -d /verif/work/scn.XXXXXX); trap 'rm -rf "$W"' EXIT
gcc -g -O0 -w -I$R -I$R/include $(pkg-config --cflags glib-2.0) /verif/replay/scenarios/d26_malformed_aspect.c $R/src/*/*.c -o $W/scn -lglib-2.0 -lpthread -lyaml 2>&1 | tail -3
mk() { # $1 = variant: copy the test configuration and break one record
  mkdir -p $W/$1; cp $R/test/unit/state_tests_config/*.yml $W/$1/; f=$W/$1/bidib_track_config.yml
  case $1 in
    aspect)    python3 - $f <<'PY'
import sys; p=sys.argv[1]; s=open(p).read(); s=s.replace("          - id: reverse\n            value: 0x00\n        initial: normal","          - name: reverse\n            value: 0x00\n        initial: normal",1); open(p,"w").write(s)
PY
    ;;
    dcc_aspect) python3 - $f <<'PY'
import sys; p=sys.argv[1]; s=open(p).read(); s=s.replace("          - id: reverse\n            ports:","          - name: reverse\n            ports:",1); open(p,"w").write(s)
PY
    ;;
    point)     python3 - $f <<'PY'
import sys; p=sys.argv[1]; s=open(p).read(); s=s.replace("    points-board:\n      - id: point1","    points-board:\n      - name: point1",1); open(p,"w").write(s)
PY
    ;;
    segment)   python3 - $f <<'PY'
import sys; p=sys.argv[1]; s=open(p).read(); s=s.replace("      - id: seg2\n        address: 0x01","      - id: seg2\n        adress: 0x01",1); open(p,"w").write(s)
PY
    ;;
    board)     python3 - $W/$1/bidib_board_config.yml <<'PY'
import sys; p=sys.argv[1]; s=open(p).read(); s=s.replace("  - id: board1","  - name: board1",1); open(p,"w").write(s)
PY
    ;;
    reverser)  python3 - $f <<'PY'
import sys; p=sys.argv[1]; s=open(p).read(); s=s.replace("      - id: reverser1\n        cv: 30051","      - id: reverser1\n        cv: 30051\n      - id: reverser2\n        cw: 30052",1); open(p,"w").write(s)
PY
    ;;
  esac
}
for v in ${@:-aspect dcc_aspect point segment reverser board}; do
  mk $v
  # the segment variant reads an uninitialised pointer: whether that crashes depends on stack garbage, so run it under valgrind
  if [ $v = segment ]; then timeout 300 valgrind -q --error-exitcode=125 $W/scn $W/$v > $W/out 2>&1; rc=$?
  else timeout 60 $W/scn $W/$v > $W/out 2>&1; rc=$?; fi
  if [ $rc -ge 124 ]; then echo "variant $v: SCENARIO-FAIL process died (exit status $rc)"; else echo "variant $v: $(grep SCENARIO $W/out | tail -1)"; fi
done
