/* Scenario replay for finding D4 (C12): a CRC-valid packet whose only "message" has no address terminator:
 * payload 03 01 02 03.  Before the fix bidib_extract_msg_type scans past the 4-byte heap copy (heap-buffer-overflow). */
#include <stdio.h>
#include <stdint.h>
#include <stdbool.h>
#include "include/highlevel/bidib_highlevel_util.h"
#define syslog_libbidib(...) ((void)0)
#include "src/transmission/bidib_transmission_receive.c"
int main(void) {
	uint8_t pkt[] = {0x03, 0x01, 0x02, 0x03};
	bidib_split_packet(pkt, sizeof pkt);
	printf("SCENARIO-PASS (malformed message rejected)\n");
	return 0;
}
