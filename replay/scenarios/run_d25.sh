#!/bin/sh
R=${1:-/repo}
W=$(mktemp -d /verif/work/scn.XXXXXX); trap 'rm -rf "$W"' EXIT
gcc -g -O0 -w -I$R -I$R/include $(pkg-config --cflags glib-2.0) /verif/replay/scenarios/d25_late_answer_attribution.c $R/src/*/*.c -o $W/scn -lglib-2.0 -lpthread -lyaml 2>&1 | tail -3
timeout 60 $W/scn 2>&1 | tail -4
