/*
 * sim.h - a tiny simulated BiDiB bus for stand-alone demos of libbidib.
 *
 * The library is started with bidib_start_pointer(sim_read, sim_write, cfg, 0).
 * sim_write() receives the escaped serial stream of the library, splits it into
 * messages and answers them like a tree of BiDiB nodes would; the answers are
 * queued and handed to the library byte by byte through sim_read().
 *
 * Only what the library needs for start-up and for the demos is implemented.
 * All uplink messages use sequence number 0 (= "no sequence check").
 */
#ifndef DEMO_SIM_H
#define DEMO_SIM_H

#include <pthread.h>
#include <stdbool.h>
#include <stdint.h>
#include <stdio.h>
#include <stdlib.h>
#include <string.h>
#include <time.h>
#include <unistd.h>

#include "bidib.h"
#include "transmission/bidib_transmission_intern.h"

#define SIM_MAX_NODES 16
#define SIM_RXQ_SIZE 65536
#define SIM_LOG_SIZE 1024

typedef struct {
	uint8_t addr[3];   /* path: top, sub, subsub (0 = unused level) */
	uint8_t uid[7];
	bool present;
	/* node table transfer state (only used for interfaces) */
	uint8_t version;
	bool changed;      /* table changed since the last GETALL */
	int iter;
} sim_node_t;

typedef struct {
	uint8_t addr[3];
	uint8_t type;
	uint8_t len;
	uint8_t data[64];
} sim_logged_t;

static sim_node_t sim_nodes[SIM_MAX_NODES];
static int sim_node_cnt = 0;

static pthread_mutex_t sim_mutex = PTHREAD_MUTEX_INITIALIZER;
static uint8_t sim_rxq[SIM_RXQ_SIZE];
static size_t sim_rx_head = 0, sim_rx_tail = 0;

static sim_logged_t sim_log[SIM_LOG_SIZE];
static volatile int sim_log_cnt = 0;
static bool sim_verbose = false;
/* simulated line latency: queued bytes become readable this long after the
 * last packet was queued */
static long sim_rx_delay_us = 0;
static struct timespec sim_last_inject = {0, 0};

/* optional hook, called for every message the library sends; when = 0 before
 * the simulator answers it, when = 1 after the answer has been queued */
static void (*sim_hook)(const uint8_t *addr, uint8_t type, const uint8_t *data,
                        int len, int when) = NULL;

static int sim_depth(const uint8_t *a) {
	return a[0] == 0 ? 0 : (a[1] == 0 ? 1 : (a[2] == 0 ? 2 : 3));
}

static sim_node_t *sim_find(const uint8_t *addr) {
	for (int i = 0; i < sim_node_cnt; i++) {
		if (sim_nodes[i].present && !memcmp(sim_nodes[i].addr, addr, 3)) {
			return &sim_nodes[i];
		}
	}
	return NULL;
}

static sim_node_t *sim_add_node(uint8_t top, uint8_t sub, uint8_t subsub, const uint8_t *uid) {
	sim_node_t *n = &sim_nodes[sim_node_cnt++];
	memset(n, 0, sizeof(*n));
	n->addr[0] = top; n->addr[1] = sub; n->addr[2] = subsub;
	memcpy(n->uid, uid, 7);
	n->present = true;
	n->version = 1;
	return n;
}

/* is c a direct child of p? returns the local address (0 if not) */
static uint8_t sim_child_local(const sim_node_t *p, const sim_node_t *c) {
	int d = sim_depth(p->addr);
	if (!c->present || d >= 3 || sim_depth(c->addr) != d + 1 || memcmp(p->addr, c->addr, d)) {
		return 0;
	}
	return c->addr[d];
}

/* k-th row of the node table of p (row 0 = p itself); false if there is none */
static bool sim_table_row(const sim_node_t *p, int k, uint8_t *local, const uint8_t **uid) {
	if (k == 0) {
		*local = 0; *uid = p->uid;
		return true;
	}
	for (int i = 0; i < sim_node_cnt; i++) {
		uint8_t l = sim_child_local(p, &sim_nodes[i]);
		if (l != 0 && --k == 0) {
			*local = l; *uid = sim_nodes[i].uid;
			return true;
		}
	}
	return false;
}

static int sim_table_count(const sim_node_t *p) {
	int cnt = 1;
	for (int i = 0; i < sim_node_cnt; i++) {
		if (sim_child_local(p, &sim_nodes[i]) != 0) {
			cnt++;
		}
	}
	return cnt;
}

static void sim_rx_push(uint8_t b) {
	sim_rxq[sim_rx_head % SIM_RXQ_SIZE] = b;
	sim_rx_head++;
}

static void sim_rx_push_escaped(uint8_t b) {
	if (b == BIDIB_PKT_MAGIC || b == BIDIB_PKT_ESCAPE) {
		sim_rx_push(BIDIB_PKT_ESCAPE);
		sim_rx_push(b ^ 0x20);
	} else {
		sim_rx_push(b);
	}
}

/* queue raw, already unescaped packet content (one or more messages); the CRC
 * and the framing are added here */
static void sim_inject_raw(const uint8_t *content, int len) {
	uint8_t crc = 0;
	pthread_mutex_lock(&sim_mutex);
	sim_rx_push(BIDIB_PKT_MAGIC);
	for (int i = 0; i < len; i++) {
		crc = bidib_crc_array[content[i] ^ crc];
		sim_rx_push_escaped(content[i]);
	}
	sim_rx_push_escaped(crc);
	sim_rx_push(BIDIB_PKT_MAGIC);
	clock_gettime(CLOCK_MONOTONIC, &sim_last_inject);
	pthread_mutex_unlock(&sim_mutex);
}

/* queue one uplink message from the node at addr (3 bytes path) */
static void sim_inject(const uint8_t *addr, uint8_t type, const uint8_t *data, int len) {
	uint8_t msg[80];
	int n = 1;
	for (int i = 0; i < 3 && addr[i] != 0; i++) {
		msg[n++] = addr[i];
	}
	msg[n++] = 0x00;  /* end of address stack */
	msg[n++] = 0x00;  /* sequence number: none */
	msg[n++] = type;
	for (int i = 0; i < len; i++) {
		msg[n++] = data[i];
	}
	msg[0] = (uint8_t) (n - 1);
	if (sim_verbose) {
		fprintf(stderr, "  sim -> lib: from %d.%d.%d type 0x%02x len %d\n",
		        addr[0], addr[1], addr[2], type, len);
	}
	sim_inject_raw(msg, n);
}

static uint8_t sim_read(int *byte_read) {
	uint8_t b = 0;
	pthread_mutex_lock(&sim_mutex);
	bool ready = true;
	if (sim_rx_delay_us > 0) {
		struct timespec now;
		clock_gettime(CLOCK_MONOTONIC, &now);
		long us = (now.tv_sec - sim_last_inject.tv_sec) * 1000000L +
		          (now.tv_nsec - sim_last_inject.tv_nsec) / 1000L;
		ready = us >= sim_rx_delay_us;
	}
	if (ready && sim_rx_tail < sim_rx_head) {
		b = sim_rxq[sim_rx_tail % SIM_RXQ_SIZE];
		sim_rx_tail++;
		*byte_read = 1;
	} else {
		*byte_read = 0;
	}
	pthread_mutex_unlock(&sim_mutex);
	return b;
}

static void sim_answer(const uint8_t *addr, uint8_t type, const uint8_t *data, int len) {
	sim_node_t *n = sim_find(addr);
	uint8_t out[16];
	uint8_t local;
	const uint8_t *uid;
	if (n == NULL) {
		return;  /* nobody lives at this address */
	}
	switch (type) {
		case MSG_SYS_GET_MAGIC:
			out[0] = 0xFE; out[1] = 0xAF;
			sim_inject(addr, MSG_SYS_MAGIC, out, 2);
			break;
		case MSG_GET_PKT_CAPACITY:
			out[0] = 64;
			sim_inject(addr, MSG_PKT_CAPACITY, out, 1);
			break;
		case MSG_NODETAB_GETALL:
			n->iter = 0;
			n->changed = false;
			out[0] = (uint8_t) sim_table_count(n);
			sim_inject(addr, MSG_NODETAB_COUNT, out, 1);
			break;
		case MSG_NODETAB_GETNEXT:
			if (n->changed) {
				/* table changed during the transfer: the host has to start again */
				out[0] = (uint8_t) sim_table_count(n);
				sim_inject(addr, MSG_NODETAB_COUNT, out, 1);
			} else if (sim_table_row(n, n->iter, &local, &uid)) {
				out[0] = n->version; out[1] = local;
				memcpy(&out[2], uid, 7);
				n->iter++;
				sim_inject(addr, MSG_NODETAB, out, 9);
			} else {
				out[0] = 255;
				sim_inject(addr, MSG_NODE_NA, out, 1);
			}
			break;
		case MSG_FEATURE_SET:
			if (len >= 2) {
				sim_inject(addr, MSG_FEATURE, data, 2);
			}
			break;
		case MSG_CS_SET_STATE:
			if (len >= 1) {
				sim_inject(addr, MSG_CS_STATE, data, 1);
			}
			break;
		case MSG_CS_DRIVE:
			if (len >= 2) {
				out[0] = data[0]; out[1] = data[1]; out[2] = 1;
				sim_inject(addr, MSG_CS_DRIVE_ACK, out, 3);
			}
			break;
		case MSG_CS_ACCESSORY:
			if (len >= 2) {
				out[0] = data[0]; out[1] = data[1]; out[2] = 1;
				sim_inject(addr, MSG_CS_ACCESSORY_ACK, out, 3);
			}
			break;
		case MSG_BM_GET_RANGE:
			if (len >= 2 && data[1] > data[0] && (data[1] - data[0]) / 8 <= 8) {
				memset(out, 0, sizeof(out));
				out[0] = data[0]; out[1] = (uint8_t) (data[1] - data[0]);
				sim_inject(addr, MSG_BM_MULTIPLE, out, 2 + (out[1] + 7) / 8);
			}
			break;
		case MSG_ACCESSORY_SET:
			if (len >= 2) {
				out[0] = data[0]; out[1] = data[1]; out[2] = 2; out[3] = 0; out[4] = 0;
				sim_inject(addr, MSG_ACCESSORY_STATE, out, 5);
			}
			break;
		case MSG_LC_OUTPUT:
			if (len >= 3) {
				sim_inject(addr, MSG_LC_STAT, data, 3);
			}
			break;
		default:
			break;  /* no answer */
	}
}

static void sim_handle_message(const uint8_t *msg) {
	uint8_t addr[3] = {0, 0, 0};
	int i = 1, d = 0;
	while (msg[i] != 0x00 && d < 3) {
		addr[d++] = msg[i++];
	}
	i++;                        /* terminator */
	i++;                        /* sequence number */
	uint8_t type = msg[i++];
	int len = msg[0] + 1 - i;
	const uint8_t *data = &msg[i];
	if (len < 0) {
		return;
	}
	if (sim_verbose) {
		fprintf(stderr, "  lib -> sim: to   %d.%d.%d type 0x%02x len %d\n",
		        addr[0], addr[1], addr[2], type, len);
	}
	if (sim_log_cnt < SIM_LOG_SIZE) {
		sim_logged_t *l = &sim_log[sim_log_cnt];
		memcpy(l->addr, addr, 3);
		l->type = type;
		l->len = (uint8_t) (len > 64 ? 64 : len);
		memcpy(l->data, data, l->len);
		sim_log_cnt++;
	}
	if (sim_hook != NULL) {
		sim_hook(addr, type, data, len, 0);
	}
	sim_answer(addr, type, data, len);
	if (sim_hook != NULL) {
		sim_hook(addr, type, data, len, 1);
	}
}

static void sim_write(uint8_t *bytes, int32_t n) {
	/* the library hands over complete packets: MAGIC content crc MAGIC */
	static uint8_t pkt[1024];
	static int pkt_len = 0;
	static bool esc = false;
	for (int32_t k = 0; k < n; k++) {
		uint8_t b = bytes[k];
		if (b == BIDIB_PKT_MAGIC) {
			if (pkt_len > 1) {
				int content = pkt_len - 1;  /* without crc */
				int pos = 0;
				while (pos < content && pos + pkt[pos] < content + 0 + 1 && pkt[pos] >= 3) {
					sim_handle_message(&pkt[pos]);
					pos += pkt[pos] + 1;
				}
			}
			pkt_len = 0;
			esc = false;
		} else if (b == BIDIB_PKT_ESCAPE) {
			esc = true;
		} else if (pkt_len < (int) sizeof(pkt)) {
			pkt[pkt_len++] = esc ? (uint8_t) (b ^ 0x20) : b;
			esc = false;
		}
	}
}

/* how often did the library send a message of this type to this address? */
__attribute__((unused)) static int sim_count_sent(const uint8_t *addr, uint8_t type) {
	int cnt = 0;
	for (int i = 0; i < sim_log_cnt; i++) {
		if (sim_log[i].type == type && (addr == NULL || !memcmp(sim_log[i].addr, addr, 3))) {
			cnt++;
		}
	}
	return cnt;
}

#endif
