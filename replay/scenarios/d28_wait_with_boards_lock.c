/* Scenario replay for finding D28 (C11): bidib_state_set_board_features (start-up, and every bidib_send_sys_reset) polls for the
 * MSG_FEATURE answers while it holds bidib_boards_rwlock in read mode.  If a node logs in at that moment (MSG_NODE_NEW, as nodes do
 * after a reset), the receiver thread needs the same lock in WRITE mode to record the new node: it blocks behind the reader, can no
 * longer deliver the awaited MSG_FEATURE, and the starting thread polls forever.
 * The simulated interface (d28/sim.h, written for the seeded-change demos) answers the start-up dialogue of d28/config; before it
 * answers the first feature request it announces a new node.  Exit 0: start-up finished; 2: bidib_start_pointer still blocked after 25 s. */
#include <pthread.h>
#include <stdio.h>
#include <stdlib.h>
#include <string.h>
#include <unistd.h>
#include "sim.h"
static volatile int phase = 0;
static void *watchdog(void *arg) {
	for (int i = 0; i < 250; i++) { usleep(100000); if (phase != 0) return NULL; }
	printf("SCENARIO-FAIL: bidib_start_pointer() still blocked after 25 s (starting thread holds bidib_boards_rwlock(read) and polls; receiver waits for the write lock)\n");
	fflush(stdout); _exit(2);
}
static void hook(const uint8_t *addr, uint8_t type, const uint8_t *data, int len, int when) {
	static bool done = false;
	if ((type == MSG_FEATURE_SET || type == MSG_FEATURE_GET) && when == 0 && !done) {
		done = true;
		uint8_t nn[9] = {0x02, 0x05, 0x40, 0x00, 0x0D, 0x68, 0x00, 0x09, 0x99};   /* table version 2, local address 5, unique id of an unconfigured node */
		uint8_t iface[4] = {0, 0, 0, 0};
		sim_inject(iface, MSG_NODE_NEW, nn, 9);
	}
}
int main(int argc, char **argv) {
	setvbuf(stdout, NULL, _IONBF, 0);
	const uint8_t uid[7] = {0xDA, 0x00, 0x0D, 0x68, 0x00, 0x01, 0xEE};
	sim_add_node(0, 0, 0, uid);
	if (getenv("D28_NO_LOGIN") == NULL) sim_hook = hook;   /* control run: D28_NO_LOGIN=1 -> no node logs in, start-up completes */
	sim_rx_delay_us = 20000;
	pthread_t wd; pthread_create(&wd, NULL, watchdog, NULL);
	int err = bidib_start_pointer(sim_read, sim_write, argv[1], 0);
	phase = 1;
	printf("bidib_start_pointer returned %d\n", err);
	bidib_stop();
	printf("SCENARIO-PASS\n"); return 0;
}
