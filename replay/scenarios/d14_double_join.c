/* Scenario replay for finding D14 (C16): start with auto-flush, stop, start WITHOUT auto-flush, stop.
 * bidib_stop never clears the static thread handles, so the second stop joins the first session's auto-flush thread again
 * (undefined behaviour: the handle is no longer valid).  pthread_create / pthread_join are interposed with a ledger (ld --wrap). */
#include <stdio.h>
#include <stdint.h>
#include <pthread.h>
#include "include/bidib.h"
int __real_pthread_create(pthread_t *, const pthread_attr_t *, void *(*)(void *), void *);
int __real_pthread_join(pthread_t, void **);
#define MAXT 32
static pthread_t live[MAXT]; static int nlive; static int bad;
int __wrap_pthread_create(pthread_t *t, const pthread_attr_t *a, void *(*f)(void *), void *x) { int r = __real_pthread_create(t, a, f, x); if (!r && nlive < MAXT) live[nlive++] = *t; return r; }
int __wrap_pthread_join(pthread_t t, void **res) {
	for (int i = 0; i < nlive; i++) if (pthread_equal(live[i], t)) { live[i] = live[--nlive]; return __real_pthread_join(t, res); }
	printf("join of a thread that is not alive (already joined in an earlier session)\n"); bad++; return 0;   /* do not perform the undefined join */
}
static uint8_t rd(int *ok) { *ok = 0; return 0; }
static void wr(uint8_t *b, int32_t n) { (void)b; (void)n; }
int main(void) {
	bidib_set_lowlevel_debug_mode(true);
	if (bidib_start_pointer(rd, wr, NULL, 1)) return 3;
	bidib_stop();
	if (bidib_start_pointer(rd, wr, NULL, 0)) return 3;
	bidib_stop();
	if (bad || nlive) { printf("SCENARIO-FAIL: %d stale joins, %d threads never joined\n", bad, nlive); return 1; }
	printf("SCENARIO-PASS\n"); return 0;
}
