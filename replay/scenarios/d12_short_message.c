/* Scenario replay for known finding D12 (C12): a CRC-valid, structurally well-formed message that is shorter than its
 * type requires: MSG_NODE_NEW without payload (03 00 00 8d).  The dispatcher reads message[data_index + 2 .. + 8]
 * (data_index is -1 here) beyond the 4-byte heap copy: AddressSanitizer heap-buffer-overflow READ. */
#include <stdio.h>
#include <stdint.h>
#include <stdbool.h>
#include "include/highlevel/bidib_highlevel_util.h"
#define syslog_libbidib(...) ((void)0)
#include "src/transmission/bidib_transmission_receive.c"
int main(void) {
	uint8_t pkt[] = {0x03, 0x00, 0x00, MSG_NODE_NEW};
	bidib_split_packet(pkt, sizeof pkt);
	printf("SCENARIO-PASS (short message handled without out-of-bounds read)\n");
	return 0;
}
