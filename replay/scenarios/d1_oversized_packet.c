/* Scenario replay for finding D1 (C12/C02): more than 256 payload bytes between two delimiters.
 * Drives the real static bidib_receive_packet() (the real .c file is #included) with a read callback that delivers
 * 0xFE, 300 x 0x01, 0xFE.  Before the fix: stack-buffer-overflow of the 256-byte packet buffer (AddressSanitizer). */
#include <stdio.h>
#include <stdint.h>
#include <stdbool.h>
#include "include/highlevel/bidib_highlevel_util.h"
#define syslog_libbidib(...) ((void)0)
#include "src/transmission/bidib_transmission_receive.c"
static int pos;
static uint8_t rd(int *ok) {
	*ok = 1;
	int p = pos++;
	if (p == 0) return 0xFE;
	if (p <= 300) return 0x01;
	if (p == 301) return 0xFE;
	bidib_running = false;
	return 0x00;
}
int main(void) {
	bidib_running = true; bidib_discard_rx = false;
	read_byte = rd;
	bidib_receive_packet();
	printf("SCENARIO-PASS (oversized packet consumed without overflow, %d bytes read)\n", pos);
	return 0;
}
