/* Scenario replay for finding D2 (C11/C13): a track configuration that declares the same DCC point id twice.
 * bidib_state_add_dcc_point_state returns true while still holding bidib_trains_rwlock (read); start then calls
 * bidib_stop() -> bidib_state_reset_train_params() -> pthread_rwlock_wrlock(&bidib_trains_rwlock): self-deadlock.
 * Build: see run_scenario.sh.  Exit 0: start returned 1 within the watchdog; exit 2: hang (killed by alarm). */
#include <stdio.h>
#include <stdlib.h>
#include <string.h>
#include <unistd.h>
#include <signal.h>
#include <stdint.h>
#include "include/bidib.h"

static uint8_t rd(int *ok) { *ok = 0; return 0; }
static void wr(uint8_t *b, int32_t n) { (void)b; (void)n; }
static void on_alarm(int s) { (void)s; const char m[] = "SCENARIO-FAIL: bidib_start_pointer did not return within 10 s (lock leaked on the duplicate path)\n"; write(1, m, sizeof m - 1); _exit(2); }

int main(int argc, char **argv) {
	if (argc < 2) return 3;
	signal(SIGALRM, on_alarm);
	alarm(10);
	int r = bidib_start_pointer(rd, wr, argv[1], 0);
	printf("start returned %d\n", r);
	if (r != 1) { printf("SCENARIO-FAIL: duplicate DCC point accepted\n"); return 1; }
	printf("SCENARIO-PASS\n");
	return 0;
}
