"""Pipeline for one verification unit: goto-cc -> goto-instrument (DFCC) -> cbmc.

A *unit* is one function of /repo placed under contract.  The translation unit
is a small wrapper under /verif/units that #include's the real .c file from
/repo's current working tree; nothing is copied or re-typed.  See DESIGN.md §3.
"""
import json, os, re, shutil, subprocess, time, resource, hashlib
from dataclasses import dataclass, field
from typing import Optional

REPO = os.environ.get("VP_REPO", "/repo")
VERIF = os.path.dirname(os.path.dirname(os.path.abspath(__file__)))
WORK = os.path.join(VERIF, "work")
GUARD = "UNIBA_SWT_LIBBIDIB_VERIF"

_glib = None


def glib_cflags():
    global _glib
    if _glib is None:
        _glib = subprocess.run(["pkg-config", "--cflags", "glib-2.0"], capture_output=True,
                               text=True).stdout.split()
    return _glib


def base_cflags():
    return ["-D" + GUARD, "-I" + VERIF + "/stubs", "-I" + VERIF + "/contracts", "-I" + VERIF + "/spec",
            "-I" + VERIF + "/units", "-I" + VERIF, "-I" + REPO, "-I" + REPO + "/src", "-I" + REPO + "/include"] + glib_cflags()


@dataclass
class Unit:
    name: str                       # unique, e.g. "C01.flush_impl"
    src: str                        # wrapper TU, relative to /verif (or absolute, for generated units)
    functions: list                 # real functions of /repo under contract in this unit
    props: list                     # property ids this unit contributes to
    entry: str = "vp_harness"
    enforce: list = field(default_factory=list)   # --enforce-contract
    replace: list = field(default_factory=list)   # --replace-call-with-contract
    loops: Optional[list] = None    # loop-contract templates (see loopc.py)
    unwindset: dict = field(default_factory=dict)  # {"func.N": bound}  complete unwinding of constant-bounded loops
    unwind_reason: str = ""
    solver: str = ""                # "", "cadical", "z3", "cvc5", "kissat"
    timeout: int = 300
    mem_gb: int = 16
    tier: str = "quick"             # lowest tier in which it runs
    kind: str = "proof"             # "proof" | "bounded"
    bound: str = ""                 # for kind == bounded: the stated bound
    std_checks: bool = True         # CBMC's built-in safety checks on
    min_obligations: int = 1
    covers: int = 1                 # minimum number of cover goals that must be satisfied (0 = no cover run)
    defines: list = field(default_factory=list)
    remove_bodies: list = field(default_factory=list)  # functions whose body is dropped and replaced by a nondet stub
    keep_undefined: list = field(default_factory=list)
    extra_flags: list = field(default_factory=list)   # extra cbmc flags
    extra_srcs: list = field(default_factory=list)
    fallback: Optional[str] = None  # name of the bounded fall-back unit used as counterexample finder
    deep: Optional[dict] = None     # field overrides for a deeper variant "<name>_deep" that runs in the thorough tier only
    replay: Optional[str] = None    # native replay source (relative to /verif); None = no native replay
    replay_srcs: list = field(default_factory=list)   # real /repo sources to link into the replay binary
    note: str = ""
    object_bits: int = 12
    no_dfcc: bool = False           # plain harness (no contract instrumentation)
    known_ok_desc: list = field(default_factory=list)
    only_re: str = ""               # if set: only obligations whose "<id> <description>" matches are kept (others are data-abstraction noise, see unit note)
    desc_by_line: dict = field(default_factory=dict)   # {"<file basename>:<line>": description} for contract clauses generated one per line
    stub_builtins: bool = False     # also give libc string/heap functions nondet bodies (data fully abstracted)
    stubbed_contracts: list = field(default_factory=list)  # callees replaced by a generated contract stub (reporting)
    unwind_assert: bool = True      # False only for kind == "bounded": loops cut at the stated bound without unwinding assertions
    internal_is_property: bool = False  # loop invariants generated from the property itself count as property-level (E2)
    stub_srcs: list = field(default_factory=list)      # C files (relative to /verif) with contract stubs, compiled separately and linked in after remove_bodies
    link_objs: list = field(default_factory=list)      # [(goto binary, [function bodies to drop from it first])] linked in after remove_bodies
    prop_filter: dict = field(default_factory=dict)    # {property id: regex}: which obligations of this unit belong to which property


@dataclass
class Obligation:
    unit: str
    pid: str          # cbmc property id
    desc: str
    status: str       # SUCCESS / FAILURE / ...
    klass: str        # "property" | "internal"
    loc: str = ""


@dataclass
class UnitResult:
    unit: Unit
    status: str = "ok"              # ok | violation | internal_fail | undecided | error
    reason: str = ""
    obligations: list = field(default_factory=list)
    failed: list = field(default_factory=list)
    covers_total: int = 0
    covers_sat: int = 0
    t_build: float = 0.0
    t_solve: float = 0.0
    t_cover: float = 0.0
    backend: str = ""
    cmd: str = ""
    stubs_generated: list = field(default_factory=list)
    assumed_contracts: list = field(default_factory=list)
    trace: Optional[dict] = None
    log_tail: str = ""
    ignored: int = 0                # obligations dropped by Unit.only_re (reported in the evidence)


INTERNAL_RE = re.compile(r"\.(loop_invariant_base|loop_invariant_step|loop_decreases|loop_assigns|loop_step_unwinding|"
                         r"unwind|loop_invariant_base_unwinding)\.")


def classify(pid, desc):
    if INTERNAL_RE.search(pid + "."):
        return "internal"
    d = desc.lower()
    if d.startswith("check invariant") or "loop invariant" in d or "decreases clause" in d or "unwinding assertion" in d:
        return "internal"
    if "is assignable" in d and ".loop_assigns" in pid:
        return "internal"
    if desc.startswith("VP-INTERNAL"):
        return "internal"
    return "property"


def _limits(mem_gb):
    def f():
        b = mem_gb * (1 << 30)
        resource.setrlimit(resource.RLIMIT_AS, (b, b))
        os.setsid()
    return f


def run(cmd, log, timeout=300, mem_gb=16, cwd=None):
    """Run a tool, capture everything into `log`; returns (rc, seconds). rc=124 on timeout."""
    t0 = time.time()
    with open(log, "w") as fh:
        fh.write("$ " + " ".join(cmd) + "\n")
        fh.flush()
        try:
            p = subprocess.Popen(cmd, stdout=fh, stderr=subprocess.STDOUT, cwd=cwd, preexec_fn=_limits(mem_gb))
            try:
                rc = p.wait(timeout=timeout)
            except subprocess.TimeoutExpired:
                try:
                    os.killpg(p.pid, 9)
                except Exception:
                    p.kill()
                p.wait()
                rc = 124
        except FileNotFoundError as e:
            fh.write(str(e))
            rc = 127
    return rc, time.time() - t0


def run_out(cmd, timeout=120, mem_gb=8):
    try:
        p = subprocess.run(cmd, capture_output=True, text=True, timeout=timeout, preexec_fn=_limits(mem_gb))
        return p.returncode, p.stdout + p.stderr
    except subprocess.TimeoutExpired:
        return 124, ""


def tail(path, n=30, width=300):
    try:
        with open(path, errors="replace") as fh:
            lines = fh.readlines()[-n:]
        return "".join(l[:width].rstrip() + "\n" for l in lines)
    except Exception:
        return ""


def parse_cbmc_json(path):
    """Returns (results list, cprover status, messages) from a --json-ui log (first line is our '$ cmd')."""
    with open(path, errors="replace") as fh:
        txt = fh.read()
    i = txt.find("\n[")
    if i < 0:
        return None, None, txt[-2000:]
    body = txt[i + 1:]
    try:
        data = json.loads(body)
    except Exception:
        # truncated output (timeout / crash): try to close the array
        try:
            j = body.rstrip().rstrip(",")
            data = json.loads(j + "]")
        except Exception:
            return None, None, body[-2000:]
    results, status, msgs = None, None, []
    for o in data:
        if not isinstance(o, dict):
            continue
        if "result" in o:
            results = o["result"]
        if "goals" in o:
            results = o
        if "cProverStatus" in o:
            status = o["cProverStatus"]
        if "messageText" in o:
            msgs.append(o.get("messageType", "") + ": " + o["messageText"])
    return results, status, msgs


def solver_flags(s):
    if s in ("", "minisat"):
        return []
    if s == "cadical":
        return ["--sat-solver", "cadical"]
    if s == "kissat":
        return ["--external-sat-solver", "kissat"]
    if s == "z3":
        return ["--z3"]
    if s == "cvc5":
        return ["--cvc5"]
    raise ValueError(s)


def list_functions_with_body(gb):
    rc, out = run_out(["goto-instrument", "--list-goto-functions", gb]) if False else (1, "")
    return out


def undefined_functions(gb):
    rc, out = run_out(["goto-instrument", "--list-undefined-functions", gb])
    fns = []
    for l in out.splitlines():
        l = l.strip()
        if not l or " " in l or "::" in l or l.startswith("Reading") or l.startswith("__CPROVER"):
            continue
        fns.append(l)
    return fns


CPROVER_BUILTINS = {"malloc", "free", "calloc", "realloc", "memcpy", "memset", "memmove", "memcmp", "strlen", "strcmp",
                    "strncmp", "strcpy", "strncpy", "strdup", "abort", "exit", "assert", "__assert_fail", "strchr",
                    "strcat", "strncat", "strtol", "strrchr", "alloca", "__builtin_alloca", "memchr", "abs", "labs", "strstr", "strcspn", "strspn", "snprintf", "sprintf"}


def unit_dir(u):
    d = os.path.join(WORK, u.name.replace("/", "_"))
    os.makedirs(d, exist_ok=True)
    return d


def build(u: Unit, r: UnitResult, d: str, cover: bool):
    """compile + stub + instrument; returns path of final goto binary or None (r.status set)."""
    from . import loopc
    sfx = ".cov" if cover else ""
    src = u.src if os.path.isabs(u.src) else os.path.join(VERIF, u.src)
    gb0, gb1, gb2 = os.path.join(d, "a%s.gb" % sfx), os.path.join(d, "b%s.gb" % sfx), os.path.join(d, "c%s.gb" % sfx)
    # 1. compile the wrapper TU (which includes the real source from /repo's working tree)
    cmd = ["goto-cc", "--function", u.entry] + base_cflags() + ["-D" + x for x in u.defines] + \
[src] + \
          [s if os.path.isabs(s) else os.path.join(VERIF, s) for s in u.extra_srcs] + ["-o", gb0]
    rc, _ = run(cmd, os.path.join(d, "cc%s.log" % sfx), timeout=120)
    if rc != 0:
        r.status, r.reason, r.log_tail = "error", "goto-cc failed (rc=%d)" % rc, tail(os.path.join(d, "cc%s.log" % sfx))
        return None
    cur = gb0
    # 2. drop bodies that this unit replaces by nondet stubs
    if u.remove_bodies:
        cmd = ["goto-instrument"]
        for f in u.remove_bodies:
            cmd += ["--remove-function-body", f]
        cmd += [cur, gb1]
        rc, _ = run(cmd, os.path.join(d, "rm.log"), timeout=120)
        if rc != 0:
            r.status, r.reason, r.log_tail = "error", "remove-function-body failed", tail(os.path.join(d, "rm.log"))
            return None
        cur = gb1
    # 2b. link contract-stub TUs / pre-compiled contract-stub binaries
    links = list(u.link_objs)
    for k, ssrc in enumerate(u.stub_srcs):
        sobj = os.path.join(d, "stub%d%s.gb" % (k, sfx))
        rc, _ = run(["goto-cc", "-c"] + base_cflags() + ["-D" + x for x in u.defines] + [ssrc if os.path.isabs(ssrc) else os.path.join(VERIF, ssrc), "-o", sobj],
                    os.path.join(d, "stubcc.log"), timeout=120)
        if rc != 0:
            r.status, r.reason, r.log_tail = "error", "stub TU does not compile", tail(os.path.join(d, "stubcc.log"))
            return None
        links.append((sobj, []))
    for k, (obj, drop) in enumerate(links):
        o2 = obj
        if drop:
            o2 = os.path.join(d, "l%d%s.gb" % (k, sfx))
            cmd = ["goto-instrument"]
            for f in drop:
                cmd += ["--remove-function-body", f]
            rc, _ = run(cmd + [obj, o2], os.path.join(d, "rml.log"), timeout=120)
            if rc != 0:
                r.status, r.reason, r.log_tail = "error", "remove-function-body (stub binary) failed", tail(os.path.join(d, "rml.log"))
                return None
        nxt = os.path.join(d, "k%d%s.gb" % (k, sfx))
        rc, _ = run(["goto-cc", "--function", u.entry, cur, o2, "-o", nxt], os.path.join(d, "link.log"), timeout=120)
        if rc != 0:
            r.status, r.reason, r.log_tail = "error", "goto-cc link failed", tail(os.path.join(d, "link.log"))
            return None
        cur = nxt
    # 3. never leave a body-less callee (DFCC would make everything after it unreachable)
    undef = [f for f in undefined_functions(cur) if (u.stub_builtins or f not in CPROVER_BUILTINS) and f not in u.keep_undefined
             and f not in u.replace and not f.startswith("__CPROVER") and not f.startswith("__builtin_")]
    if undef:
        rx = "^(" + "|".join(re.escape(f) for f in undef) + ")$"
        nxt = os.path.join(d, "s%s.gb" % sfx)
        rc, _ = run(["goto-instrument", "--generate-function-body", rx, "--generate-function-body-options",
                     "nondet-return", cur, nxt], os.path.join(d, "gen.log"), timeout=120)
        if rc != 0:
            r.status, r.reason, r.log_tail = "error", "generate-function-body failed", tail(os.path.join(d, "gen.log"))
            return None
        cur = nxt
        r.stubs_generated = undef
    if not u.no_dfcc:
        # normalisation pass: re-reading and re-writing the binary avoids a goto-instrument 6.11 crash
        # (goto_inline parameter_assignments "Unreachable") when DFCC inlines calls
        nx2 = os.path.join(d, "n%s.gb" % sfx)
        rc, _ = run(["goto-instrument", cur, nx2], os.path.join(d, "norm.log"), timeout=120)
        cur = nx2 if rc == 0 else cur
    # 4. contract instrumentation
    if not u.no_dfcc:
        cmd = ["goto-instrument", "--no-malloc-may-fail", "--dfcc", u.entry]
        for f in u.enforce:
            cmd += ["--enforce-contract", f]
        for f in u.replace:
            cmd += ["--replace-call-with-contract", f]
        if u.loops is not None:
            try:
                lcfile = loopc.resolve(u, cur, d)
            except loopc.ResolveError as e:
                r.status, r.reason = "undecided", "loop-contract extraction rule did not fire: %s" % e
                return None
            if lcfile:
                cmd += ["--loop-contracts-file", lcfile]
            cmd += ["--apply-loop-contracts"]
        cmd += [cur, gb2]
        rc, _ = run(cmd, os.path.join(d, "dfcc%s.log" % sfx), timeout=300, mem_gb=u.mem_gb)
        if rc != 0:
            r.status, r.reason, r.log_tail = "error", "goto-instrument --dfcc failed (rc=%d)" % rc, tail(os.path.join(d, "dfcc%s.log" % sfx))
            return None
        cur = gb2
    return cur


def cbmc_cmd(u, gb):
    # --no-malloc-may-fail: libbidib never checks malloc results; out-of-memory is outside every property (assumption)
    cb = ["cbmc", gb, "--object-bits", str(u.object_bits), "--json-ui", "--verbosity", "6", "--no-malloc-may-fail"]
    if u.no_dfcc:
        cb += ["--function", u.entry]
    if not u.std_checks:
        cb += ["--no-standard-checks"]
    if u.unwindset:
        cb += ["--unwindset", ",".join("%s:%d" % kv for kv in u.unwindset.items())] + (["--unwinding-assertions"] if u.unwind_assert else [])
    cb += solver_flags(u.solver) + u.extra_flags
    return cb


def run_unit(u: Unit, want_trace=True) -> UnitResult:
    r = UnitResult(unit=u)
    d = unit_dir(u)
    t0 = time.time()
    cur = build(u, r, d, cover=False)
    if cur is None:
        return r
    r.t_build = time.time() - t0
    # 5. solve
    cb = cbmc_cmd(u, cur)
    r.cmd = " ".join(cb)
    r.backend = u.solver or "minisat (cbmc default SAT)"
    log = os.path.join(d, "cbmc.json")
    if u.only_re:
        # check only the obligations this unit is about and slice the formula to their cone of influence
        rc0, out = run_out(cb + ["--show-properties"], timeout=120, mem_gb=u.mem_gb)
        sel = []
        try:
            for o in json.loads(out[out.index("["):]):
                for pr in o.get("properties", []) if isinstance(o, dict) else []:
                    if re.search(u.only_re, pr["name"] + " " + pr.get("description", "")) or pr.get("description", "").startswith("VP-REACH"):
                        sel.append(pr["name"])
        except Exception as e:
            r.status, r.reason = "error", "cannot list properties: %s" % e
            return r
        r.ignored = -1
        for nm in sel:
            cb += ["--property", nm]
        cb += ["--slice-formula"]
        r.cmd = " ".join(cb[:12]) + " ... (%d selected properties) --slice-formula" % len(sel)
    rc, r.t_solve = run(cb, log, timeout=u.timeout, mem_gb=u.mem_gb)
    if rc == 124:
        r.status, r.reason = "undecided", "solver timeout after %ds" % u.timeout
        return r
    if rc != 0 and u.object_bits < 12 and "too many addressed objects" in open(log, errors="replace").read():
        # retry with the default-size object id space
        cb = [("12" if (i > 0 and cb[i - 1] == "--object-bits") else x) for i, x in enumerate(cb)]
        rc, t2 = run(cb, log, timeout=u.timeout, mem_gb=u.mem_gb)
        r.t_solve += t2
        if rc == 124:
            r.status, r.reason = "undecided", "solver timeout after %ds" % u.timeout
            return r
    results, status, msgs = parse_cbmc_json(log)
    if results is None or rc not in (0, 10):
        r.status, r.reason, r.log_tail = "error", "cbmc rc=%d, no result block" % rc, (msgs if isinstance(msgs, str) else "\n".join(msgs[-8:]))[:3000]
        return r
    for m in msgs:
        if "ignoring forall" in m or "ignoring exists" in m:
            r.status, r.reason = "undecided", "quantifier ignored by back end"
            return r
    unreachable = []
    undetermined = []
    for o in results:
        pid, desc, st = o.get("property", ""), o.get("description", ""), o.get("status", "")
        loc = o.get("sourceLocation", {})
        key = "%s:%s" % (os.path.basename(loc.get("file", "")), loc.get("line", ""))
        if key in u.desc_by_line and ("requires clause" in desc or "ensures clause" in desc):
            desc = u.desc_by_line[key] + " [" + desc + "]"
        if "undefined function should be unreachable" in desc or "no body for" in desc:
            r.status, r.reason = "error", "vacuity guard: body-less callee (%s)" % desc
            return r
        if desc.startswith("VP-REACH"):
            r.covers_total += 1
            if st == "FAILURE":
                r.covers_sat += 1
            else:
                unreachable.append(desc)
            continue
        if u.only_re and not re.search(u.only_re, pid + " " + desc):
            r.ignored += 1
            continue
        ob = Obligation(unit=u.name, pid=pid, desc=desc, status=st, klass="property" if u.internal_is_property else classify(pid, desc),
                        loc="%s:%s" % (loc.get("file", ""), loc.get("line", "")))
        r.obligations.append(ob)
        if st == "FAILURE":
            r.failed.append(ob)
        elif st != "SUCCESS":
            undetermined.append(ob)
    if r.failed and undetermined:
        # cbmc leaves obligations UNKNOWN once others have failed: decide them in a second run restricted to exactly those
        cb2 = [x for x in cb]
        for ob in undetermined:
            cb2 += ["--property", ob.pid]
        log2 = os.path.join(d, "cbmc2.json")
        rc2, t2 = run(cb2, log2, timeout=u.timeout, mem_gb=u.mem_gb)
        r.t_solve += t2
        res2, _, _ = parse_cbmc_json(log2) if rc2 in (0, 10) else (None, None, None)
        st2 = {o.get("property"): o.get("status") for o in (res2 or [])}
        still = []
        for ob in undetermined:
            ob.status = st2.get(ob.pid, ob.status)
            if ob.status == "FAILURE":
                r.failed.append(ob)
            elif ob.status != "SUCCESS":
                still.append(ob)
        undetermined = still
        if undetermined:
            r.status, r.reason = "undecided", "%d obligations still %s after the second run" % (len(undetermined), undetermined[0].status)
            return r
    if not r.failed and undetermined:
        r.status, r.reason = "undecided", "%d obligations reported %s by cbmc" % (len(undetermined), undetermined[0].status)
        return r
    if not r.failed and u.covers > 0 and (r.covers_sat < u.covers or unreachable):
        r.status, r.reason = "error", "vacuity guard: reachability markers reached %d/%d (need >=%d); unreachable: %s" % (
            r.covers_sat, r.covers_total, u.covers, unreachable[:4])
        return r
    if len(r.obligations) < u.min_obligations:
        r.status, r.reason = "error", "vacuity guard: %d obligations < floor %d" % (len(r.obligations), u.min_obligations)
        return r
    if u.loops:
        need = {t["function"] for t in u.loops if not t.get("optional")}
        have = {o.pid.split(".loop_invariant_step")[0] for o in r.obligations if ".loop_invariant_step" in o.pid}
        missing = [f for f in need if not any(h.endswith(f) or h == f for h in have)]
        if missing:
            r.status, r.reason = "error", "vacuity guard: loop contract silently dropped for %s" % missing
            return r
    if r.failed:
        prop_fail = [o for o in r.failed if o.klass == "property"]
        r.status = "violation" if prop_fail else "internal_fail"
        if want_trace:
            named = [o for o in (prop_fail or r.failed) if re.match(r"C\d\d\.", o.desc)]
            tgt = (named or prop_fail or r.failed)[0]
            tl = os.path.join(d, "trace.json")
            rc2, _ = run(cb + ["--trace", "--property", tgt.pid], tl, timeout=u.timeout, mem_gb=u.mem_gb)
            if rc2 in (0, 10):
                res2, _, _ = parse_cbmc_json(tl)
                if res2:
                    for o in res2:
                        if o.get("status") == "FAILURE" and "trace" in o:
                            r.trace = {"property": o.get("property"), "description": o.get("description"),
                                       "steps": compact_trace(o["trace"])}
                            break
        return r
    return r


def compact_trace(steps, limit=4000):
    """Keep assignments to harness-level variables (vp_*, in_*) and function calls; values as data strings."""
    out = []
    for s in steps:
        t = s.get("stepType")
        if t == "assignment":
            lhs = s.get("lhs", "")
            base = lhs.split("[")[0].split(".")[0]
            if s.get("hidden") and not base.startswith(("vp_", "in_")):
                continue
            v = s.get("value", {})
            val = v.get("data", v.get("name"))
            if val is None and "elements" in v:
                for e in v["elements"]:
                    ev = e.get("value", {})
                    if ev.get("data") is not None:
                        out.append({"lhs": "%s[%s]" % (lhs, e.get("index")), "value": ev.get("data"), "fn": s.get("sourceLocation", {}).get("function"),
                                    "line": s.get("sourceLocation", {}).get("line")})
                continue
            if val is None and "members" in v:
                continue
            out.append({"lhs": lhs, "value": val, "fn": s.get("sourceLocation", {}).get("function"),
                        "line": s.get("sourceLocation", {}).get("line")})
        elif t == "function-call":
            out.append({"call": s.get("function", {}).get("displayName")})
        elif t == "failure":
            out.append({"failure": s.get("reason"), "line": s.get("sourceLocation", {}).get("line"),
                        "file": s.get("sourceLocation", {}).get("file")})
    if len(out) > limit:
        out = out[:limit // 2] + [{"elided": len(out) - limit}] + out[-limit // 2:]
    return out


def inputs_from_trace(trace, prefix="in_"):
    """Last value assigned inside the harness to each harness-level variable (VP_IN assigns the nondeterministic input
    after the declaration); variables whose name starts with `prefix` are taken from anywhere."""
    vals = {}
    if not trace:
        return vals
    for s in trace["steps"]:
        lhs = s.get("lhs")
        if not lhs or s.get("value") is None:
            continue
        if lhs.startswith("__") or "$" in lhs or "!" in str(s["value"]):
            continue
        if lhs.startswith(prefix) or s.get("fn") == "vp_harness":
            vals[lhs] = s["value"]
    return vals
