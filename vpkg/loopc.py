"""Resolve loop-contract templates to a concrete goto-instrument --loop-contracts-file.

Templates live next to the unit (python dicts):
  {"function": "bidib_flush_impl",
   "anchor": r"for \\(size_t i = 0; i < buffer_index",   # regex on the source line of the loop head, must match exactly one loop
   "invariants": "...", "assigns": "...", "decreases": "..."}
or {"function": F, "all": True, "invariants": ..., ...} to put the same contract on every loop of F.

Loop ordinals come from `goto-instrument --show-loops`, symbol ids from `--show-symbol-table`;
if a rule does not fire exactly once the unit is UNDECIDED (exit 2), never a violation.
"""
import json, os, re
from .core import run_out

KEYWORDS = {"sizeof", "int", "unsigned", "char", "long", "short", "signed", "void", "const", "struct", "size_t",
            "uint8_t", "uint16_t", "uint32_t", "uint64_t", "int32_t", "int64_t", "_Bool", "bool", "true", "false",
            "NULL", "volatile"}


class ResolveError(Exception):
    pass


def show_loops(gb):
    rc, out = run_out(["goto-instrument", "--show-loops", gb])
    loops = []
    cur = None
    for l in out.splitlines():
        m = re.match(r"Loop (\S+)\.(\d+):", l)
        if m:
            cur = {"function": m.group(1), "id": int(m.group(2))}
            continue
        m = re.match(r"\s+file (\S+) line (\d+) function (\S+)", l)
        if m and cur:
            cur["file"], cur["line"] = m.group(1), int(m.group(2))
            loops.append(cur)
            cur = None
    return loops


def symbols(gb):
    """symbol id -> declaration line (0 if unknown)"""
    rc, out = run_out(["goto-instrument", "--show-symbol-table", gb], timeout=180)
    res = {}
    cur = None
    for l in out.splitlines():
        m = re.match(r"^Symbol\.+: (\S+)$", l)
        if m:
            cur = m.group(1)
            res[cur] = 0
            continue
        m = re.match(r"^Location\.+: file \S+ line (\d+)", l)
        if m and cur:
            res[cur] = int(m.group(1))
    return res


_src_cache = {}


def src_line(path, n):
    if path not in _src_cache:
        try:
            with open(path, errors="replace") as fh:
                _src_cache[path] = fh.read().splitlines()
        except OSError:
            _src_cache[path] = []
    ls = _src_cache[path]
    return ls[n - 1] if 0 < n <= len(ls) else ""


def idents(expr):
    # drop member accesses (.x / ->x) and __CPROVER_* builtins
    e = re.sub(r"\b0[xX][0-9a-fA-F]+[uUlL]*\b|\b\d+[uUlL]*\b", " ", expr)
    e = re.sub(r"(\.|->)\s*[A-Za-z_]\w*", " ", e)
    ids = set(re.findall(r"[A-Za-z_]\w*", e))
    # variables bound by a quantifier are not program symbols
    bound = set(re.findall(r"__CPROVER_(?:forall|exists)\s*\{[^;{}]*?\b([A-Za-z_]\w*)\s*;", expr))
    return {i for i in ids if i not in KEYWORDS and not i.startswith("__CPROVER") and i not in bound}


def resolve(unit, gb, outdir):
    _src_cache.clear()
    loops = show_loops(gb)
    syms = symbols(gb)
    fnmap = {}
    for t in unit.loops:
        fn = t["function"]
        mine = [l for l in loops if l["function"] == fn]
        if not mine:
            if t.get("optional"):
                continue
            raise ResolveError("function %s has no loops (template expects one)" % fn)
        if t.get("all"):
            chosen = mine
        else:
            rx = re.compile(t["anchor"])
            chosen = [l for l in mine if rx.search(src_line(l["file"], l["line"]))]
            if len(chosen) != 1:
                raise ResolveError("anchor /%s/ matched %d loops of %s" % (t["anchor"], len(chosen), fn))
        text = " ".join(t.get(k, "") for k in ("invariants", "assigns", "decreases"))
        for l in chosen:
            smap = []
            for ident in sorted(idents(text)):
                loc = sorted(s for s in syms if s.startswith(fn + "::") and s.split("::")[-1] == ident and "$tmp" not in s)
                if ident in t.get("symbols", {}):
                    smap.append("%s,%s" % (ident, t["symbols"][ident]))
                elif len(loc) == 1:
                    smap.append("%s,%s" % (ident, loc[0]))
                elif len(loc) > 1:
                    # several locals of that name (e.g. `i` of consecutive loops): the one declared closest before/at the loop head
                    cand = [s for s in loc if 0 < syms[s] <= l["line"]]
                    if not cand:
                        raise ResolveError("local %s of %s is ambiguous: %s" % (ident, fn, loc))
                    best = max(syms[s] for s in cand)
                    cand = [s for s in cand if syms[s] == best]
                    if len(cand) != 1:
                        raise ResolveError("local %s of %s is ambiguous: %s" % (ident, fn, cand))
                    smap.append("%s,%s" % (ident, cand[0]))
                elif ident in syms:
                    smap.append("%s,%s" % (ident, ident))
                else:
                    raise ResolveError("identifier %s (in loop contract of %s) not found in symbol table" % (ident, fn))
            e = {"loop_id": str(l["id"])}
            for k in ("assigns", "invariants", "decreases"):
                if t.get(k):
                    e[k] = t[k]
            e["symbol_map"] = ";".join(smap) if smap else "vp_dummy,vp_dummy"
            fnmap.setdefault(fn, []).append(e)
    if not fnmap:
        return None
    src = unit.src if os.path.isabs(unit.src) else os.path.basename(unit.src)
    doc = {"sources": [os.path.basename(src)], "functions": [{fn: es} for fn, es in fnmap.items()], "output": "OUTPUT"}
    p = os.path.join(outdir, "loops.json")
    with open(p, "w") as fh:
        json.dump(doc, fh, indent=1)
    return p
