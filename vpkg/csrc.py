"""Mechanical extraction of function definitions, prototypes, call graph, lock operations and documented
lock contracts from /repo's current working tree.  Used by the generated engines (E2 lock discipline, C18 table).

Extraction rules are must-fire: when a rule cannot be applied unambiguously the caller turns that into
exit 2 (UNDECIDED), never into a violation.
"""
import os, re, glob
from .core import REPO

LOCKS = ["bidib_trains_rwlock", "trackstate_accessories_mutex", "trackstate_peripherals_mutex",
         "trackstate_segments_mutex", "trackstate_reversers_mutex", "trackstate_trains_mutex",
         "trackstate_boosters_mutex", "trackstate_track_outputs_mutex", "bidib_boards_rwlock",
         "bidib_node_state_table_mutex", "bidib_send_buffer_mutex",
         "bidib_uplink_queue_mutex", "bidib_uplink_error_queue_mutex", "bidib_uplink_intern_queue_mutex",
         "bidib_action_id_mutex"]
RWLOCKS = {"bidib_trains_rwlock", "bidib_boards_rwlock"}


class ExtractError(Exception):
    pass


def strip_comments(txt):
    """Replace comments and string/char literals by spaces (newlines kept, so offsets and line numbers survive)."""
    out = []
    i, n = 0, len(txt)
    while i < n:
        c = txt[i]
        if txt.startswith("/*", i):
            j = txt.find("*/", i + 2)
            j = n if j < 0 else j + 2
            out.append("".join(ch if ch == "\n" else " " for ch in txt[i:j]))
            i = j
        elif txt.startswith("//", i):
            j = txt.find("\n", i)
            j = n if j < 0 else j
            out.append(" " * (j - i))
            i = j
        elif c == '"' or c == "'":
            j = i + 1
            while j < n and txt[j] != c:
                j += 2 if txt[j] == "\\" else 1
            j = min(j + 1, n)
            out.append(c + " " * (j - i - 2) + c if j - i >= 2 else txt[i:j])
            i = j
        else:
            out.append(c)
            i += 1
    return "".join(out)


class Func:
    def __init__(self, name, ret, params, file, line, static, body, body_off):
        self.name, self.ret, self.params, self.file, self.line = name, ret, params, file, line
        self.static, self.body, self.body_off = static, body, body_off
        self.calls = []       # names of known library functions called (textual)
        self.lockops = []     # (op, lock, line)
        self.fnptr_refs = []  # library functions mentioned without a call (callbacks)

    def param_list(self):
        """[(declaration text usable for a local variable, name)]"""
        p = self.params.strip()
        if p in ("", "void"):
            return []
        parts, depth, cur = [], 0, ""
        for ch in p:
            if ch == "(":
                depth += 1
            elif ch == ")":
                depth -= 1
            if ch == "," and depth == 0:
                parts.append(cur)
                cur = ""
            else:
                cur += ch
        parts.append(cur)
        res = []
        for q in parts:
            q = " ".join(q.split())
            q = re.sub(r"\s*__attribute__\s*\(\(.*?\)\)", "", q)
            m = re.search(r"\(\s*\*\s*(\w+)\s*\)\s*\(", q)
            if m:  # function pointer
                res.append((q, m.group(1)))
                continue
            m = re.match(r"^(.*?)(\w+)\s*(\[\s*\w*\s*\])?$", q)
            if not m:
                raise ExtractError("cannot parse parameter '%s' of %s" % (q, self.name))
            typ, name, arr = m.group(1).strip(), m.group(2), m.group(3)
            if arr:
                res.append(("%s *%s" % (typ, name), name))
            else:
                res.append(("%s %s" % (typ, name), name))
        return res


DEF_RE = re.compile(r"^(?P<head>(?:static\s+|inline\s+|const\s+|unsigned\s+|struct\s+)*[A-Za-z_]\w*(?:\s+[A-Za-z_]\w*)*[\s\*]+?)"
                    r"(?P<name>[A-Za-z_]\w*)\s*\((?P<params>[^;{}]*?)\)\s*\{", re.M | re.S)


def parse_file(path):
    raw = open(path, errors="replace").read()
    txt = strip_comments(raw)
    funcs = []
    pos = 0
    for m in DEF_RE.finditer(txt):
        if m.start() < pos:
            continue
        ls = txt.rfind("\n", 0, m.start()) + 1
        if ls != m.start():
            continue  # definitions start at column 0 in this code base
        head = m.group("head")
        if re.match(r"\s*(typedef|else|return|if|while|for|switch|do)\b", head):
            continue
        name = m.group("name")
        # find the matching closing brace
        i = m.end() - 1
        depth = 0
        j = i
        while j < len(txt):
            if txt[j] == "{":
                depth += 1
            elif txt[j] == "}":
                depth -= 1
                if depth == 0:
                    break
            j += 1
        if depth != 0:
            raise ExtractError("unbalanced braces in %s (%s)" % (path, name))
        body = txt[i:j + 1]
        ret = " ".join(head.split())
        static = bool(re.search(r"\bstatic\b", ret))
        ret_clean = re.sub(r"\b(static|inline)\b", "", ret).strip()
        line = txt.count("\n", 0, m.start()) + 1
        funcs.append(Func(name, ret_clean, " ".join(m.group("params").split()), path, line, static, body, i))
        pos = j + 1
    return funcs, raw, txt


LOCKOP_RE = re.compile(r"\b(pthread_mutex_lock|pthread_mutex_unlock|pthread_mutex_trylock|pthread_rwlock_rdlock|"
                       r"pthread_rwlock_wrlock|pthread_rwlock_unlock|pthread_rwlock_tryrdlock|pthread_rwlock_trywrlock)\s*\(\s*([^)]*)\)")


class Tree:
    """All function definitions of src/**/*.c of the current working tree."""

    def __init__(self, repo=REPO):
        self.repo = repo
        self.files = sorted(glob.glob(os.path.join(repo, "src", "*", "*.c")))
        self.funcs = {}
        self.by_file = {}
        for f in self.files:
            fs, raw, txt = parse_file(f)
            self.by_file[f] = fs
            for fn in fs:
                key = fn.name
                if key in self.funcs:
                    # static functions with the same name in different files: qualify
                    key = fn.name + "@" + os.path.basename(f)
                self.funcs[key] = fn
        names = {fn.name for fn in self.funcs.values()}
        for fn in self.funcs.values():
            body = fn.body
            seen_calls, seen_refs = [], []
            for m in re.finditer(r"\b([A-Za-z_]\w*)\b(\s*\()?", body):
                nm = m.group(1)
                if nm in names and nm != fn.name or (nm == fn.name and m.group(2)):
                    if m.group(2):
                        if nm not in seen_calls:
                            seen_calls.append(nm)
                    elif nm not in seen_refs and nm != fn.name:
                        seen_refs.append(nm)
            fn.calls, fn.fnptr_refs = seen_calls, seen_refs
            for m in LOCKOP_RE.finditer(body):
                arg = m.group(2).strip()
                mm = re.match(r"^&\s*(\w+)$", arg)
                if not mm or mm.group(1) not in LOCKS:
                    raise ExtractError("%s: lock operation on unknown lock expression '%s'" % (fn.name, arg))
                line = fn.line + body.count("\n", 0, m.start()) + (fn.body.count("\n", 0, 0))
                fn.lockops.append((m.group(1), mm.group(1), line))

    def get(self, name):
        return self.funcs.get(name)

    def call_args(self, f, callee):
        """argument texts of every call of `callee` in f: [[arg, ...], ...]"""
        res = []
        for m in re.finditer(r"\b%s\s*\(" % re.escape(callee), f.body):
            i = m.end()
            depth, cur, args = 1, "", []
            while i < len(f.body) and depth > 0:
                ch = f.body[i]
                if ch == "(":
                    depth += 1
                elif ch == ")":
                    depth -= 1
                    if depth == 0:
                        break
                if ch == "," and depth == 1:
                    args.append(cur.strip())
                    cur = ""
                else:
                    cur += ch
                i += 1
            args.append(cur.strip())
            res.append(args)
        return res

    def acquires(self, flags=None):
        """name -> set of locks possibly acquired by the function or anything it calls (textual over-approximation).
        flags: {function: {"param": p, "lock": L}} for functions that take L only when their flag argument is true;
        a call whose flag argument is the literal `false` does not contribute L."""
        flags = flags or {}
        acq = {k: {l for (op, l, _) in f.lockops if "unlock" not in op} for k, f in self.funcs.items()}
        changed = True
        while changed:
            changed = False
            for k, f in self.funcs.items():
                for c in f.calls:
                    if c not in acq:
                        continue
                    add = set(acq[c])
                    if c in flags:
                        g = self.funcs[c]
                        names = [n for _, n in g.param_list()]
                        idx = names.index(flags[c]["param"])
                        calls = self.call_args(f, c)
                        if calls and all(len(a) > idx and a[idx] == "false" for a in calls):
                            add.discard(flags[c]["lock"])
                    if not add <= acq[k]:
                        acq[k] |= add
                        changed = True
        return acq


DOC_RE = re.compile(r"/\*\*(?P<doc>(?:(?!\*/).)*?)\*/\s*(?P<decl>[A-Za-z_][^;{}()]*?\b(?P<name>[A-Za-z_]\w*)\s*\([^;{}]*?\)\s*;)", re.S)


DOCDEF_RE = re.compile(r"/\*\*(?P<doc>(?:(?!\*/).)*?)\*/\s*(?P<decl>[A-Za-z_][^;{}()]*?\b(?P<name>[A-Za-z_]\w*)\s*\([^;{}]*?\)\s*\{)", re.S)


def documented_requires(repo=REPO):
    """name -> (set of locks documented as 'Shall only be called with ... acquired', source 'file:line').
    Source: the doc comment directly in front of the declaration in the internal headers."""
    res = {}
    for h in sorted(glob.glob(os.path.join(repo, "src", "*", "*.h")) + glob.glob(os.path.join(repo, "src", "*", "*.c"))):
        raw = open(h, errors="replace").read()
        for m in (DOC_RE if h.endswith(".h") else DOCDEF_RE).finditer(raw):
            doc = " ".join(l.strip().lstrip("*").strip() for l in m.group("doc").splitlines())
            mm = re.search(r"Shall only be called with(.*?)(?:acquired|locked)\s*\.", doc, re.S)
            if not mm:
                continue
            locks = {l for l in LOCKS if re.search(r"\b%s\b" % l, mm.group(1) + " ")}
            if not locks:
                continue
            line = raw.count("\n", 0, m.start("decl")) + 1
            res[m.group("name")] = (locks, "%s:%d" % (os.path.relpath(h, repo), line))
    return res
