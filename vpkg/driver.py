"""check driver:  bin/check <property> [quick|thorough]   /   bin/check --replay <file>"""
import sys, os, json, time, re, importlib.util, glob, shutil, subprocess
from concurrent.futures import ThreadPoolExecutor
from . import core
from .core import Unit, UnitResult, VERIF, REPO

JOBS = int(os.environ.get("VP_JOBS", "14"))


def load_units():
    """All unit definitions: units/*/units.py (hand-written) + generators (units/*/gen.py: generate(workdir) -> [Unit])."""
    units = []
    for p in sorted(glob.glob(os.path.join(VERIF, "units", "*", "units.py"))):
        spec = importlib.util.spec_from_file_location("vp_units_" + os.path.basename(os.path.dirname(p)), p)
        m = importlib.util.module_from_spec(spec)
        spec.loader.exec_module(m)
        units += m.UNITS
    # deeper variants for the thorough tier: same harness, larger bound
    import dataclasses
    for u in list(units):
        if u.deep:
            units.append(dataclasses.replace(u, name=u.name + "_deep", tier="thorough", deep=None, **u.deep))
    return units


def load_generated(prop, tier):
    units = []
    for p in sorted(glob.glob(os.path.join(VERIF, "units", "*", "gen.py"))):
        spec = importlib.util.spec_from_file_location("vp_gen_" + os.path.basename(os.path.dirname(p)), p)
        m = importlib.util.module_from_spec(spec)
        spec.loader.exec_module(m)
        if prop in getattr(m, "SERVES", []):
            units += m.generate(prop, tier, os.path.join(core.WORK, "gen"))
    return units


def load_known():
    p = os.path.join(VERIF, "known_findings.json")
    if not os.path.exists(p):
        return []
    return json.load(open(p)).get("findings", [])


def known_match(known, prop, ob):
    for k in known:
        if k.get("status") != "open" or k["property"] != prop:
            continue
        if k.get("unit") and k["unit"] != ob.unit:
            continue
        if k.get("descriptions") is not None:
            if ob.desc in k["descriptions"]:
                return k
            continue
        if re.search(k["obligation_re"], ob.pid + " " + ob.desc):
            return k
    return None


def tier_rank(t):
    return {"quick": 0, "thorough": 1, "fallback": 99}[t]   # fallback units run only on behalf of another unit


def write_replay(prop, r: UnitResult, ob, native):
    d = os.environ.get("VP_REPLAY_DIR", os.path.join(VERIF, "work", "replay"))
    os.makedirs(d, exist_ok=True)
    name = re.sub(r"[^A-Za-z0-9_.-]", "_", "%s-%s-%s" % (prop, r.unit.name, ob.pid))
    path = os.path.join(d, name + ".json")
    doc = {"property": prop, "unit": r.unit.name, "functions": r.unit.functions,
           "failed_obligation": {"id": ob.pid, "description": ob.desc, "class": ob.klass, "location": ob.loc},
           "all_failed": [{"id": o.pid, "description": o.desc, "class": o.klass, "location": o.loc} for o in r.failed][:60],
           "verifier_cmd": r.cmd, "backend": r.backend,
           "inputs": core.inputs_from_trace(r.trace), "verifier_trace": r.trace,
           "native_replay": native}
    with open(path, "w") as fh:
        json.dump(doc, fh, indent=1)
    return path


def native_replay(u: Unit, inputs, outdir):
    """Compile the same harness with gcc + sanitizers against the real sources and run it on the counterexample."""
    if not u.replay:
        return None
    os.makedirs(outdir, exist_ok=True)
    inp = os.path.join(outdir, "inputs.txt")
    with open(inp, "w") as fh:
        for k, v in inputs.items():
            fh.write("%s=%s\n" % (k, v))
    exe = os.path.join(outdir, "replay.bin")
    src = os.path.join(VERIF, u.replay)
    cmd = ["gcc", "-g", "-O0", "-w", "-DVP_REPLAY", "-fsanitize=address,undefined", "-fno-sanitize-recover=undefined"] + core.base_cflags() + \
          ["-D" + x for x in u.defines] + [src, os.path.join(VERIF, "stubs", "vp_replay.c")] + \
          [os.path.join(REPO, s) for s in u.replay_srcs] + ["-o", exe, "-Wl,--unresolved-symbols=ignore-all", "-lglib-2.0", "-lpthread", "-lyaml"]
    p = subprocess.run(cmd, capture_output=True, text=True)
    if p.returncode != 0:
        return {"built": False, "error": (p.stdout + p.stderr)[-1500:]}
    env = dict(os.environ, VP_REPLAY_FILE=inp, ASAN_OPTIONS="detect_leaks=0")
    try:
        q = subprocess.run([exe], capture_output=True, text=True, timeout=60, env=env)
        out = (q.stdout + q.stderr)[-3000:]
        failed = q.returncode != 0 and "REPLAY-ASSUME-FAILED" not in out
        return {"built": True, "rc": q.returncode, "reproduced": failed, "output": out, "cmd": " ".join(cmd[:3]) + " ... " + u.replay}
    except subprocess.TimeoutExpired:
        return {"built": True, "rc": 124, "reproduced": True, "output": "native replay did not terminate within 60 s"}


def check(prop, tier, props_meta):
    t0 = time.time()
    seed = int(os.environ.get("VERIF_SEED", "0") or 0)
    allu = [u for u in load_units() if prop in u.props] + load_generated(prop, tier)
    units = [u for u in allu if tier_rank(u.tier) <= tier_rank(tier)]
    skipped = [u for u in allu if tier_rank(u.tier) > tier_rank(tier)]
    names = {u.name: u for u in allu}
    known = load_known()
    lines, violations, undecided, known_lines = [], [], [], []
    results = []
    # heavy units first
    units.sort(key=lambda u: -u.timeout)
    with ThreadPoolExecutor(max_workers=JOBS) as ex:
        results = list(ex.map(core.run_unit, units))
    # a unit shared between properties contributes to `prop` only the obligations its prop_filter selects
    for r in results:
        rx = r.unit.prop_filter.get(prop)
        if rx:
            r.obligations = [o for o in r.obligations if re.search(rx, o.pid + " " + o.desc)]
            r.failed = [o for o in r.failed if re.search(rx, o.pid + " " + o.desc)]
            if r.status in ("violation", "internal_fail") and not r.failed:
                r.status = "ok"
            elif r.status == "violation" and not any(o.klass == "property" for o in r.failed):
                r.status = "internal_fail"
    # triage
    final = []
    for r in results:
        u = r.unit
        if r.status == "undecided" and u.fallback and "extraction rule did not fire" in (r.reason or ""):
            # the contracts no longer match the source text (refactored loop): the proof is undecided, but the bounded
            # fall-back of the same harness can still find a counterexample; a passing fall-back leaves it undecided
            fb = names.get(u.fallback)
            if fb is not None:
                rf = core.run_unit(fb)
                if rf.status in ("violation", "internal_fail"):
                    rf.reason = "bounded fall-back %s after: %s" % (fb.name, r.reason)
                    final.append(rf)
        if r.status == "internal_fail":
            # proof no longer goes through: try to obtain a concrete counterexample from the bounded fall-back
            fb = names.get(u.fallback) if u.fallback else None
            if fb is not None:
                rf = core.run_unit(fb)
                if rf.status == "violation":
                    rf_note = "counterexample from bounded fall-back %s after proof-internal failure in %s" % (fb.name, u.name)
                    rf.reason = rf_note
                    final.append(rf)
                    continue
            # no counterexample: obligations that passed on the unchanged tree now fail -> reported, without input
            r.status = "violation_noinput"
        final.append(r)
    nobl = ndis = 0
    unit_ev, bounded_ev, samples = [], [], []
    assumed, stubs = set(), set()
    enforced = set()
    for r in final:
        enforced.update(r.unit.enforce)
        if r.unit.stubbed_contracts or r.unit.name.startswith("E2."):
            enforced.update(r.unit.functions)
    for r in final:
        u = r.unit
        stubs.update(r.stubs_generated)
        for g in u.replace + u.stubbed_contracts:
            if g not in enforced:
                assumed.add(g)
        ev = {"unit": u.name, "functions_under_contract": u.functions, "kind": u.kind, "status": r.status,
              "obligations": len(r.obligations), "discharged": sum(1 for o in r.obligations if o.status == "SUCCESS"),
              "property_level": sum(1 for o in r.obligations if o.klass == "property"),
              "proof_internal": sum(1 for o in r.obligations if o.klass == "internal"),
              "backend": r.backend, "solver_s": round(r.t_solve, 2), "build_s": round(r.t_build, 2),
              "cover_goals": "%d/%d" % (r.covers_sat, r.covers_total),
              "loops": ("loop contracts: " + ", ".join(sorted({t["function"] for t in u.loops}))) if u.loops else "",
              "unwinding": ("complete unwinding %s (%s)" % (u.unwindset, u.unwind_reason)) if u.unwindset else "",
              "replaced_by_contract": u.replace + u.stubbed_contracts, "nondet_stubs": r.stubs_generated, "note": u.note}
        kf = sum(1 for o in r.failed if known_match(known, prop, o))
        ev["open_known_finding_obligations"] = kf
        if u.kind == "bounded":
            ev["bound"] = u.bound
            bounded_ev.append(ev)
        else:
            unit_ev.append(ev)
            nobl += len(r.obligations) - kf
            ndis += ev["discharged"]
        named = [o for o in r.obligations if re.match(r"C\d\d", o.desc)]
        for o in (named or r.obligations)[:3]:
            samples.append({"unit": u.name, "obligation": o.pid, "description": o.desc[:200], "status": o.status})
        if r.status in ("error", "undecided"):
            undecided.append("%s: %s %s" % (u.name, r.reason, r.log_tail[-600:] if r.log_tail else ""))
        elif r.status in ("violation", "violation_noinput"):
            fails = [o for o in r.failed if o.klass == "property"] or r.failed
            unknown = []
            for o in r.failed:
                k = known_match(known, prop, o)
                if k:
                    msg = "KNOWN-FINDING: property=%s %s [unit %s]" % (prop, k["what"], u.name)
                    if msg not in known_lines:
                        known_lines.append(msg)
                else:
                    unknown.append(o)
            if unknown:
                tgt = ([o for o in unknown if o.klass == "property" and re.match(r"C\d\d\.", o.desc)] or
                       [o for o in unknown if o.klass == "property"] or unknown)[0]
                native = None
                if r.trace and u.replay:
                    native = native_replay(u, core.inputs_from_trace(r.trace), os.path.join(core.unit_dir(u), "native"))
                path = write_replay(prop, r, tgt, native)
                sfx = ""
                if not (native and native.get("reproduced")):
                    sfx = " no-failing-input-found"
                violations.append("VIOLATION property=%s replay=%s unit=%s obligation=%s%s" % (prop, path, u.name, tgt.pid, sfx))
    meta = props_meta.get(prop, {})
    has_proof = any(e["kind"] == "proof" for e in unit_ev)
    level = meta.get("level") or ("proof" if has_proof else "other")
    if level == "proof" and not has_proof:
        level = "other"
    cov = {"obligations": nobl, "discharged": ndis,
           "checker_cmd": "per unit: goto-cc <wrapper TU including the real /repo source> ; goto-instrument --dfcc vp_harness --enforce-contract F "
                          "[--replace-call-with-contract G]* [--loop-contracts-file L --apply-loop-contracts] ; cbmc --json-ui [--unwindset ... --unwinding-assertions] ; "
                          "cbmc --cover cover  (driver: python3 bin/check %s %s)" % (prop, tier),
           "trusted_base": meta.get("trusted_base", []) + ["CBMC 6.11.0 front end, DFCC contract instrumentation and SAT/SMT back ends",
                                                           "bit-precise machine arithmetic (not mathematical integers)"],
           "units": unit_ev, "bounded_standins": bounded_ev,
           "units_not_run_in_this_tier": [u.name for u in skipped],
           "functions_under_contract": sorted({f for e in unit_ev for f in e["functions_under_contract"]}),
           "assumed_contracts_without_enforcing_unit": sorted(assumed),
           "nondet_return_stubs": sorted(stubs),
           "samples": samples[:12] or [{"note": "no obligations"}],
           "not_covered": meta.get("not_covered", []),
           "undecided": undecided,
           "known_findings_reported": known_lines,
           "explanation": meta.get("explanation", "contract-based deductive verification of the real code with CBMC; see DESIGN.md")}
    ev = {"property_id": prop, "tier": tier, "seed": seed, "level": level, "coverage": cov,
          "assumptions": meta.get("assumptions", []) + ["nondet-return stubs: " + ", ".join(sorted(stubs))] if stubs else meta.get("assumptions", []),
          "wall_s": round(time.time() - t0, 1), "violations": len(violations)}
    if level != "proof" or True:
        cov["evaluations"] = max(1, sum(e["obligations"] for e in bounded_ev))
        cov["distinct_nontrivial"] = max(2, sum(e["obligations"] for e in bounded_ev))
        cov["rule"] = "bounded stand-ins only: each CBMC obligation of a bounded unit counted once"
    evdir = os.environ.get("VP_EVIDENCE_DIR", os.path.join(VERIF, "evidence"))   # seed runs write elsewhere
    os.makedirs(evdir, exist_ok=True)
    with open(os.path.join(evdir, prop + ".json"), "w") as fh:
        json.dump(ev, fh, indent=1)
    for l in known_lines:
        print(l)
    for r in final:
        print("unit %-48s %-16s obligations=%d failed=%d solve=%.1fs %s" % (r.unit.name, r.status, len(r.obligations), len(r.failed), r.t_solve, r.reason[:160]))
    if violations:
        for v in violations:
            print(v)
        return 1
    if undecided:
        for x in undecided:
            print("UNDECIDED " + x[:1500])
        return 2
    print("OK property=%s tier=%s units=%d obligations=%d discharged=%d bounded_units=%d wall=%.0fs" % (
        prop, tier, len(unit_ev), nobl, ndis, len(bounded_ev), time.time() - t0))
    return 0


def main(argv):
    from .props import PROPS
    if len(argv) >= 2 and argv[0] == "--replay":
        doc = json.load(open(argv[1]))
        print(json.dumps({k: doc[k] for k in ("property", "unit", "failed_obligation", "inputs", "native_replay")}, indent=1))
        units = {u.name: u for u in load_units()}
        u = units.get(doc["unit"])
        if u and u.replay:
            res = native_replay(u, doc.get("inputs", {}), os.path.join(core.unit_dir(u), "native"))
            print(json.dumps(res, indent=1))
            return 1 if res and res.get("reproduced") else 0
        return 0
    prop = argv[0]
    tier = argv[1] if len(argv) > 1 else os.environ.get("VERIF_TIER", "quick")
    core.WORK = os.path.join(VERIF, "work", "%s.%d" % (prop, os.getpid()))
    os.makedirs(core.WORK, exist_ok=True)
    try:
        rc = check(prop, tier, PROPS)
    finally:
        if not os.environ.get("VP_KEEP_WORK"):
            shutil.rmtree(core.WORK, ignore_errors=True)
    return rc
