"""Per-property metadata: manifest text + what is trusted, assumed and not covered (mirrors DESIGN.md §5/§6/§8)."""
HOOK_COMMITS = []
COMMON_TB = [
    "stubs/vp_locks.h ghost lock model (pthread lock primitives of the real code redirected by macro at the real call sites)",
]
E2_ASSUME = [
    "E2 abstracts data completely: callee results, pointer targets and out-parameters are nondeterministic; DFCC frame checks on abstracted data are not obligations of E2 units",
    "lock contracts of callees: 'Shall only be called with ... acquired' doc comments of /repo (extracted on every run) + contracts/locks.json (flag-controlled locking) + preconditions derived for undocumented internal helpers (each checked at every call site)",
    "the set of locks a callee may acquire is the textual transitive closure of pthread lock calls (over-approximation)",
    "recursive read acquisition of an rwlock is treated as a violation (POSIX: may deadlock when a writer is queued)",
    "file-scope `static` is dropped by the preprocessor in E2 wrapper TUs (no function-local statics exist; checked on every run) so that file-local helpers can be replaced by their contracts",
    "syslog_libbidib calls are compiled out in E2 wrapper TUs (no effect on locks)",
]
PROPS = {
    "C11": {
        "claimed": True, "engine": "cbmc-contracts", "level": "proof",
        "technique": "contract-based deductive verification (CBMC/DFCC): generated per-function lock contracts + generated loop invariants over a ghost lock vector",
        "level_text": "For every function of the library that touches a lock directly or through a callee (about 265), CBMC proves for all paths, all loop iterations and all argument values: locks are acquired in one strict global rank order, never re-acquired while held, only unlocked while held, every callee's lock precondition holds at every call, and the function returns with exactly the lock vector it was entered with. Callers are checked against callee contracts, never bodies. Deadlock freedom follows from rank order + balance (paper step).",
        "level_note": "Trusted: CBMC 6.11 + DFCC; ghost lock model; textual extraction of prototypes, call graph and lock operations (must-fire rules, exit 2 otherwise); data is abstracted (nondeterministic); one function (bidib_receive_packet) only as bounded stand-in. Not covered: blocking that is not lock-induced (waiting for input / answers).",
        "assumptions": E2_ASSUME,
        "trusted_base": COMMON_TB,
        "not_covered": ["lock-independent blocking (polling loops that wait for bytes or answers)", "the user's callbacks",
                        "deadlock freedom itself is the classical argument from strict rank order + balance; that composition step is on paper"],
        "explanation": "generated lock-discipline units (engine E2), see DESIGN.md §4 and §5 C11",
    },
    "C10": {
        "claimed": True, "engine": "cbmc-contracts", "level": "proof",
        "technique": "contract-based deductive verification (CBMC/DFCC): lock-protection contracts (requires-held) of every internal accessor checked at every call site",
        "level_text": "What contracts can decide of this schedule-quantified property is the lockset discipline that makes the sequential reasoning valid under threads: for every function of the library that calls an internal accessor documented 'Shall only be called with <lock> acquired' (or a helper whose precondition is derived from such accessors), CBMC proves for all paths, loop iterations and arguments that the required locks are held at the call. Roots (public API, thread entry points) start with no lock held.",
        "level_note": "Trusted: CBMC 6.11 + DFCC; ghost lock model; documented lock contracts as extracted from /repo's headers. NOT covered: happens-before races on unguarded volatile flags (bidib_running, bidib_discard_rx, bidib_seq_num_enabled, bidib_lowlevel_debug_mode), schedule exploration, atomicity of multi-step read-modify-write sequences beyond 'the documented lock is held', direct accesses to guarded globals that do not go through an accessor function.",
        "assumptions": E2_ASSUME + ["init-phase functions (reachable only from bidib_state_init, before any thread is created) are exempt from requires-held obligations; listed per unit"],
        "trusted_base": COMMON_TB,
        "not_covered": ["data races on variables without a documented guard", "interleaving semantics / schedule exploration", "torn reads inside a critical section of the wrong mode (read lock used where an update needs exclusion)",
                        "direct uses of bidib_boards / bidib_trains / bidib_track_state.* that bypass accessor functions"],
        "explanation": "generated lock-discipline units (engine E2) restricted to the requires-held obligations, see DESIGN.md §5 C10",
    },
    "C18": {
        "claimed": True, "engine": "cbmc-contracts", "level": "proof",
        "technique": "contract-based deductive verification (CBMC): each public bidib_send_* proved against a table-driven postcondition, callee replaced by its contract; loop contracts (DFCC) on the variable-length encoders",
        "level_text": "For each of the 72 public low-level constructors CBMC proves, for every value of every scalar parameter, every node address (depth 0-3) and every payload content/length: parameters outside the documented range submit nothing, accepted parameters submit exactly one message with the tabulated type code (< 0x80), the caller's address and the specified data bytes (watched index = arbitrary byte), the length byte never exceeds 127, the payload pointer handed down is readable, and no internal buffer is overrun (CBMC bounds/pointer/overflow checks on). The copy loops of the 7 variable-length encoders carry inductive loop invariants (no unwinding bound).",
        "level_note": "Trusted: CBMC 6.11 (+DFCC for loop contracts); the oracle table units/C18/gen.py (written from include/lowlevel/*.h and the BiDiB message reference); contracts/send_contract.h is the contract of bidib_buffer_message_with(out)_data, whose own proof is part of C01; logging compiled out. One harness-side oracle loop (fw_update_op_data prophecy array) is unwound (constant 130).",
        "assumptions": ["syslog_libbidib calls are compiled out (arguments of logging calls are not evaluated)",
                        "caller-supplied payload buffers are exactly as long as the length argument announces (minimal legal buffer)",
                        "bidib_state_cs_drive / bidib_state_cs_accessory (optimistic state update after MSG_CS_DRIVE/ACCESSORY) are nondeterministic stubs here; they are covered by C07/C09"],
        "trusted_base": ["oracle table units/C18/gen.py", "contracts/send_contract.h (callee contract, proved for the real callee in C01)"],
        "not_covered": ["what happens below bidib_buffer_message_* (sequence number, admission, framing): C01/C03/C05"],
        "explanation": "table-driven per-function contracts, DESIGN.md §5 C18",
    },
    "C01": {
        "claimed": True, "engine": "cbmc-contracts", "level": "proof",
        "technique": "contract-based deductive verification (CBMC/DFCC): function contracts + inductive loop invariants on the real send path (flush, add_to_buffer, encoders, capacity, CRC table)",
        "level_text": "Proved for all inputs with no unwinding bound on the library's loops: (1) bidib_flush_impl emits, for every buffer content and fill level 0..256, only non-empty prefixes of its 312-byte staging buffer, never overruns it, starts and ends the packet with the delimiter, emits exactly 1+n+#escapes+crc(1|2)+1 bytes and nothing for an empty buffer, and empties the buffer; (2) bidib_add_to_buffer (flush and memcpy replaced by their contracts) keeps the buffer invariant for every fill level, capacity 64..255 and message length 4..128, copies inside the 256-byte buffer, keeps earlier bytes, places the message byte-identically exactly once, and never asks for a multi-message packet above the capacity; (3) both encoders build len|addr|0|seq|type|data for every depth/type/payload and hand the same message to admission and, iff admitted, once to the buffer; (4) capacity = max(64, announced); (5) the CRC table equals the CRC8 of the spec for all 65536 (crc,byte) pairs. The lock clause (every access under bidib_send_buffer_mutex) is C11/C10.",
        "level_note": "Trusted: CBMC 6.11 + DFCC. NOT yet discharged: byte-for-byte equality of the emitted stream with the reference encoder (escape values, CRC value) - only framing/length/accounting of bidib_flush_impl is proved; interleavings are reduced to the mutex discipline (C11). memcpy is replaced by a contract (writable destination, readable source, over-approximated effect observed through watched indices).",
        "assumptions": ["clock_gettime returns tv_sec in [0,2^40), tv_nsec in [0,1e9) (stub)", "syslog_libbidib compiled out",
                        "the user's write callback does not touch library state", "pkt_max_cap is not lowered between the filling of the buffer and its flush (capacity 'in force when it was filled' is modelled as the current capacity)",
                        "volatile statics of send.c are read as ordinary memory (sound under the mutex, whose discipline is C11)"],
        "trusted_base": ["memcpy contract stub in units/C01/add_to_buffer.c", "callee contracts in units/C01/encoders.c (try_send, add_to_buffer, seqnum, extract_address): each proved in its own unit except where listed under assumed contracts"],
        "not_covered": ["byte-exact content of the escaped stream and the CRC value (functional flush proof not discharged in this version)", "true concurrency semantics beyond lock discipline", "auto-flush timing"],
        "explanation": "DESIGN.md §5 C01",
    },
}
