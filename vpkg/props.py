"""Per-property metadata: manifest text + what is trusted, assumed and not covered (mirrors DESIGN.md §5/§6/§8)."""
HOOK_COMMITS = []
COMMON_TB = [
    "stubs/vp_locks.h ghost lock model (pthread lock primitives of the real code redirected by macro at the real call sites)",
]
E2_ASSUME = [
    "E2 abstracts data completely: callee results, pointer targets and out-parameters are nondeterministic; DFCC frame checks on abstracted data are not obligations of E2 units",
    "lock contracts of callees: 'Shall only be called with ... acquired' doc comments of /repo (extracted on every run) + contracts/locks.json (flag-controlled locking) + preconditions derived for undocumented internal helpers (each checked at every call site)",
    "the set of locks a callee may acquire is the textual transitive closure of pthread lock calls (over-approximation)",
    "recursive read acquisition of an rwlock is treated as a violation (POSIX: may deadlock when a writer is queued)",
    "file-scope `static` is dropped by the preprocessor in E2 wrapper TUs (no function-local statics exist; checked on every run) so that file-local helpers can be replaced by their contracts",
    "syslog_libbidib calls are compiled out in E2 wrapper TUs (no effect on locks)",
]
PROPS = {
    "C11": {
        "claimed": True, "engine": "cbmc-contracts", "level": "proof",
        "technique": "contract-based deductive verification (CBMC/DFCC): generated per-function lock contracts + generated loop invariants over a ghost lock vector",
        "level_text": "For every function of the library that touches a lock directly or through a callee (about 265), CBMC proves for all paths, all loop iterations and all argument values: locks are acquired in one strict global rank order, never re-acquired while held, only unlocked while held, every callee's lock precondition holds at every call, and the function returns with exactly the lock vector it was entered with. Callers are checked against callee contracts, never bodies. Deadlock freedom follows from rank order + balance (paper step).",
        "level_note": "Trusted: CBMC 6.11 + DFCC; ghost lock model; textual extraction of prototypes, call graph and lock operations (must-fire rules, exit 2 otherwise); data is abstracted (nondeterministic); one function (bidib_receive_packet) only as bounded stand-in. Not covered: blocking that is not lock-induced (waiting for input / answers).",
        "assumptions": E2_ASSUME,
        "trusted_base": COMMON_TB,
        "not_covered": ["lock-independent blocking (polling loops that wait for bytes or answers)", "the user's callbacks",
                        "deadlock freedom itself is the classical argument from strict rank order + balance; that composition step is on paper"],
        "explanation": "generated lock-discipline units (engine E2), see DESIGN.md §4 and §5 C11",
    },
    "C10": {
        "claimed": True, "engine": "cbmc-contracts", "level": "proof",
        "technique": "contract-based deductive verification (CBMC/DFCC): lock-protection contracts (requires-held) of every internal accessor checked at every call site",
        "level_text": "What contracts can decide of this schedule-quantified property is the lockset discipline that makes the sequential reasoning valid under threads: for every function of the library that calls an internal accessor documented 'Shall only be called with <lock> acquired' (or a helper whose precondition is derived from such accessors), CBMC proves for all paths, loop iterations and arguments that the required locks are held at the call. Roots (public API, thread entry points) start with no lock held.",
        "level_note": "Trusted: CBMC 6.11 + DFCC; ghost lock model; documented lock contracts as extracted from /repo's headers. NOT covered: happens-before races on unguarded volatile flags (bidib_running, bidib_discard_rx, bidib_seq_num_enabled, bidib_lowlevel_debug_mode), schedule exploration, atomicity of multi-step read-modify-write sequences beyond 'the documented lock is held', direct accesses to guarded globals that do not go through an accessor function.",
        "assumptions": E2_ASSUME + ["init-phase functions (reachable only from bidib_state_init, before any thread is created) are exempt from requires-held obligations; listed per unit"],
        "trusted_base": COMMON_TB,
        "not_covered": ["data races on variables without a documented guard (bidib_running, bidib_discard_rx, pkt_max_cap, debug flag: volatile flags)", "interleaving semantics / schedule exploration", "write-under-read-lock on members reached through pointers (board->connected ...): the access instrumentation sees the global's name only; mode is checked for the one listed atomic section", "members of bidib_initial_values (written only in the single-threaded init phase)"],
        "explanation": "generated lock-discipline units (engine E2) restricted to the requires-held obligations, see DESIGN.md §5 C10",
    },
    "C18": {
        "claimed": True, "engine": "cbmc-contracts", "level": "proof",
        "technique": "contract-based deductive verification (CBMC): each public bidib_send_* proved against a table-driven postcondition, callee replaced by its contract; loop contracts (DFCC) on the variable-length encoders",
        "level_text": "For each of the 72 public low-level constructors CBMC proves, for every value of every scalar parameter, every node address (depth 0-3) and every payload content/length: parameters outside the documented range submit nothing, accepted parameters submit exactly one message with the tabulated type code (< 0x80), the caller's address and the specified data bytes (watched index = arbitrary byte), the length byte never exceeds 127, the payload pointer handed down is readable, and no internal buffer is overrun (CBMC bounds/pointer/overflow checks on). The copy loops of the 7 variable-length encoders carry inductive loop invariants (no unwinding bound).",
        "level_note": "Trusted: CBMC 6.11 (+DFCC for loop contracts); the oracle table units/C18/gen.py (written from include/lowlevel/*.h and the BiDiB message reference); contracts/send_contract.h is the contract of bidib_buffer_message_with(out)_data, whose own proof is part of C01; logging compiled out. One harness-side oracle loop (fw_update_op_data prophecy array) is unwound (constant 130).",
        "assumptions": ["syslog_libbidib calls are compiled out (arguments of logging calls are not evaluated)",
                        "caller-supplied payload buffers are exactly as long as the length argument announces (minimal legal buffer)",
                        "bidib_state_cs_drive / bidib_state_cs_accessory (optimistic state update after MSG_CS_DRIVE/ACCESSORY) are nondeterministic stubs here; they are covered by C07/C09"],
        "trusted_base": ["oracle table units/C18/gen.py", "contracts/send_contract.h (callee contract, proved for the real callee in C01)"],
        "not_covered": ["what happens below bidib_buffer_message_* (sequence number, admission, framing): C01/C03/C05"],
        "explanation": "table-driven per-function contracts, DESIGN.md §5 C18",
    },
    "C01": {
        "claimed": True, "engine": "cbmc-contracts", "level": "proof",
        "technique": "contract-based deductive verification (CBMC/DFCC): function contracts + inductive loop invariants on the real send path (flush, add_to_buffer, encoders, capacity, CRC table)",
        "level_text": "Proved for all inputs with no unwinding bound on the library's loops: (1) bidib_flush_impl emits, for every buffer content and fill level 0..256, only non-empty prefixes of its 312-byte staging buffer, never overruns it, starts and ends the packet with the delimiter, emits exactly 1+n+#escapes+crc(1|2)+1 bytes and nothing for an empty buffer, and empties the buffer; (2) bidib_add_to_buffer (flush and memcpy replaced by their contracts) keeps the buffer invariant for every fill level, capacity 64..255 and message length 4..128, copies inside the 256-byte buffer, keeps earlier bytes, places the message byte-identically exactly once, and never asks for a multi-message packet above the capacity; (3) both encoders build len|addr|0|seq|type|data for every depth/type/payload and hand the same message to admission and, iff admitted, once to the buffer; (4) capacity = max(64, announced); (5) the CRC table equals the CRC8 of the spec for all 65536 (crc,byte) pairs. The lock clause (every access under bidib_send_buffer_mutex) is C11/C10.",
        "level_note": "Trusted: CBMC 6.11 + DFCC. NOT yet discharged: byte-for-byte equality of the emitted stream with the reference encoder (escape values, CRC value) - only framing/length/accounting of bidib_flush_impl is proved; interleavings are reduced to the mutex discipline (C11). memcpy is replaced by a contract (writable destination, readable source, over-approximated effect observed through watched indices).",
        "assumptions": ["clock_gettime returns tv_sec in [0,2^40), tv_nsec in [0,1e9) (stub)", "syslog_libbidib compiled out",
                        "the user's write callback does not touch library state", "pkt_max_cap is not lowered between the filling of the buffer and its flush (capacity 'in force when it was filled' is modelled as the current capacity)",
                        "volatile statics of send.c are read as ordinary memory (sound under the mutex, whose discipline is C11)"],
        "trusted_base": ["memcpy contract stub in units/C01/add_to_buffer.c", "callee contracts in units/C01/encoders.c (try_send, add_to_buffer, seqnum, extract_address): each proved in its own unit except where listed under assumed contracts"],
        "not_covered": ["byte-exact stream for buffers above 6 bytes (C01.flush_bytes is a bounded stand-in; framing, safety and length accounting are proved for all 256 bytes)", "true concurrency semantics beyond lock discipline", "auto-flush timing"],
        "explanation": "DESIGN.md §5 C01",
    },
    "C03": {
        "claimed": True, "engine": "cbmc-contracts", "level": "proof",
        "technique": "contract-based deductive verification (CBMC/DFCC): node invariant (budget counter == sum of outstanding response costs <= 48) preserved by bidib_node_try_send; bounded stand-in for the release loop",
        "level_text": "PROVED (all inputs, queues of any length through a lazy queue abstraction): bidib_node_try_send keeps the node invariant 0 <= outstanding <= 48 == sum of table costs of the outstanding requests, admits a message iff the node is not stalled, nothing is already deferred and the budget has room, charges exactly the table cost, and otherwise appends exactly one heap copy at the tail of the deferred queue and transmits nothing. BOUNDED (<= 4 held messages per call, unwinding assertions on): bidib_node_try_queued_messages releases only from the head, each released message exactly once, keeps the invariant, releases nothing while stalled, and on return the oldest held message is not stranded (stalled, or nothing held, or it does not fit).",
        "level_note": "Trusted: CBMC 6.11 + DFCC, the GLib models of stubs/vp_glib.h, callee contracts (bidib_node_stall_ready -> C04 unit, bidib_add_to_buffer -> C01). BOUNDED (<= 3 outstanding requests per node): bidib_node_state_update keeps the invariant, never increases the budget, removes the oldest request on a matching answer (reporting its action id, freeing exactly its cost when in time), changes nothing for an unrelated message before expiry, matches the next request against all its answer types after an expiry, and retries the deferred queue after every budget release (answer or expiry). Interleavings reduced to the node-table mutex (C11).",
        "assumptions": ['stubs/vp_glib.h: GQueue lazy unbounded abstraction (arbitrary fresh valid entry behind every head), GHashTable lookup oracle, concrete GArray/GString models - assumed contracts of GLib', 'malloc never fails (libbidib never checks malloc results)', 'time()/difftime() stubs: arbitrary non-negative times, creation times not in the future', 'response_limit (file-static, never assigned) has its initialiser value 48', 'syslog compiled out', "deferred/response queues are used only through g_queue_push_tail / g_queue_pop_head / g_queue_peek_head (FIFO by GLib's contract)"],
        "trusted_base": ["stubs/vp_glib.h", "units/C03/node_states.c ghost cost accounting"],
        "not_covered": ["more than 3 outstanding requests per node in bidib_node_state_update, more than 4 released messages per call (bounded stand-ins)", "sender/receiver thread races beyond the mutex discipline", "that the receiver calls bidib_node_state_update only when a message arrives (expiry is only noticed then)"],
        "explanation": "DESIGN.md §5 C03",
    },
    "C04": {
        "claimed": True, "engine": "cbmc-contracts", "level": "proof",
        "technique": "contract-based deductive verification (CBMC/DFCC): ancestor walk of bidib_node_stall_ready proved complete; admit/release contracts carry 'nothing while stalled'; update_stall as bounded stand-in",
        "level_text": "PROVED (complete: walk bounded by the 3 address levels, every address depth 0..3, every combination of existing/stalled nodes on the path): bidib_node_stall_ready answers true iff neither the node nor any ancestor up to and including the interface is stalled, and otherwise registers the node exactly once as waiter at the NEAREST stalled node on its path (not again if already registered) and nowhere else. Through C03's units: a message is admitted or released only after bidib_node_stall_ready answered true in the same critical section (proved for bidib_node_try_send; bounded <= 4 for the release loop). bidib_node_update_stall (bounded stand-in, <= 4 waiting nodes, unwinding assertions on): stall 0 clears the flag, empties the waiter list and retries every waiter that is still in the table exactly once; stall != 0 sets the flag and releases nothing.",
        "level_note": "Unaffected siblings: nodes outside the subtree never consult the stalled node (only ancestors are looked up). Bounded: the release loop and the unstall loop. Dispatcher clause (MSG_STALL handled identically in debug mode, last byte = state): C06 dispatcher unit.",
        "assumptions": ['stubs/vp_glib.h: GQueue lazy unbounded abstraction (arbitrary fresh valid entry behind every head), GHashTable lookup oracle, concrete GArray/GString models - assumed contracts of GLib', 'malloc never fails (libbidib never checks malloc results)', 'time()/difftime() stubs: arbitrary non-negative times, creation times not in the future', 'response_limit (file-static, never assigned) has its initialiser value 48', 'syslog compiled out', "deferred/response queues are used only through g_queue_push_tail / g_queue_pop_head / g_queue_peek_head (FIFO by GLib's contract)"],
        "trusted_base": ["stubs/vp_glib.h"],
        "not_covered": ["more than 4 waiting nodes per unstall / 4 released messages per retry (bounded)", "global order of resumed traffic across several nodes"],
        "explanation": "DESIGN.md §5 C04; bounded stand-ins: each CBMC obligation of a bounded unit counted once",
    },
    "C05": {
        "claimed": True, "engine": "cbmc-contracts", "level": "proof",
        "technique": "contract-based deductive verification (CBMC/DFCC) of the sequential clauses: counter successor, stamping in the encoders, no overtaking of deferred messages",
        "level_text": "Proved for all inputs: the per-node counter returns the current number and advances 1..255 -> 1, never to 0 (all 256 values); both encoders stamp exactly the allocated number of the destination node (or 0 and no allocation while numbering is off) and hand the message to admission exactly once (C01 units); a message is admitted directly only when nothing is deferred for that node (C03 try_send), so a later message never overtakes a held one.",
        "level_note": "The schedule quantifier is NOT decided: the number is allocated, admission decided and the message buffered in three separate critical sections (bidib_buffer_message_*), so two threads can reorder on the wire; contracts are sequential and cannot express this. Reported as not covered, no atomic-section obligation is claimed.",
        "assumptions": ['stubs/vp_glib.h: GQueue lazy unbounded abstraction (arbitrary fresh valid entry behind every head), GHashTable lookup oracle, concrete GArray/GString models - assumed contracts of GLib', 'malloc never fails (libbidib never checks malloc results)', 'time()/difftime() stubs: arbitrary non-negative times, creation times not in the future', 'response_limit (file-static, never assigned) has its initialiser value 48', 'syslog compiled out', "deferred/response queues are used only through g_queue_push_tail / g_queue_pop_head / g_queue_peek_head (FIFO by GLib's contract)"],
        "trusted_base": ["stubs/vp_glib.h"],
        "not_covered": ["interleavings of concurrent senders (allocation / admission / buffering are not one atomic section)", "numbering restart after system reset (bidib_node_state_table_reset)"],
        "explanation": "DESIGN.md §5 C05",
    },
    "C02": {
        "claimed": True, "engine": "cbmc-contracts", "level": "proof",
        "technique": "contract-based deductive verification (CBMC/DFCC): bidib_receive_packet proved against a lock-step reference decoder with loop contracts; extract_* against the message layout; split_packet as bounded stand-in",
        "level_text": "PROVED for every byte stream (each byte nondeterministic, arbitrary stop point, no unwinding bound): bidib_receive_packet never overruns its 256-byte buffer, hands a packet to the splitter iff the reference decoder (0xFE delimiter, 0xFD escape, CRC8 of the spec) saw a complete packet with CRC 0, with the unescaped payload minus CRC byte-identical (watched byte), and a bad-CRC, oversized or stray-delimiter input has no effect; the four extract helpers return the bytes at the spec'd offsets for every well-formed message and stay inside the heap copy; the CRC table equals the spec CRC8. BOUNDED (packets <= 12 bytes): bidib_split_packet hands every well-formed message to the dispatcher exactly once, in order, byte-identical, after exactly one node-state update, whatever the expected sequence number, and stops at the first malformed message.",
        "level_note": "Trusted: CBMC 6.11 + DFCC. The read callback is redirected textually to the checking stub; the polling loop is abstracted (a byte is always delivered; waiting has no effect on state). The round-trip clause (receiver decodes what the sender emits) is not discharged: the sender side proves framing/length only (see C01).",
        "assumptions": ["polling for input has no effect on library state", "clock_gettime stubbed to 0", "syslog compiled out", "malloc never fails"],
        "trusted_base": ["reference decoder in units/C02/receive_packet.c (written from the BiDiB serial spec)"],
        "not_covered": ["bidib_split_packet for packets above 12 bytes (bounded stand-in)", "sender/receiver round trip at byte level", "resynchronisation after (re)connect (bidib_receive_first_pkt_magic, bidib_discard_rx)"],
        "explanation": "DESIGN.md §5 C02",
    },
    "C06": {
        "claimed": True, "engine": "cbmc-contracts", "level": "proof",
        "technique": "contract-based deductive verification (CBMC): dispatcher proved against a destination table for all 256 type codes with every callee replaced by a recording contract stub; queue operations against a lazy unbounded queue model",
        "level_text": "Proved for all 256 type codes x debug/normal mode x arbitrary payload (of the length its type requires) x SecAck on/off: bidib_handle_received_message gives the received buffer exactly one destination (freed after state tracking | message queue | error queue | internal queue), the destination is the one tabulated in the README / property statement (error variants of accessory state, booster state and drive event included), in debug mode everything but MSG_STALL goes to the message queue with no state tracking and no replies, and a queued buffer is the received one. Queue: bidib_message_queue_add keeps at most 128 entries and frees the dropped oldest entry and its buffer exactly once; bidib_read_message_from_queue returns NULL iff empty, else the oldest buffer (live, owned by the caller), frees the entry and removes it.",
        "level_note": "Trusted: CBMC 6.11, the destination oracle spec_dest() in units/C06/dispatch.c (from README 'Message handling' and the BiDiB message reference), generated contract stubs for the 33 callees (units/C06/dispatch_stubs.c), GQueue model. FIFO order of the queues rests on GLib's contract (push_tail/pop_head only). Reader/receiver races reduced to the queue mutexes (C11/C10).",
        "assumptions": ["accessory execution-state bytes with bit 7 set other than 0x80 may go to either state tracking or the error queue (the documents do not decide)", "syslog compiled out", "malloc never fails",
                        "file-scope `static` dropped in the dispatcher TU so that file-local helpers can be replaced by contract stubs"],
        "trusted_base": ["units/C06/dispatch.c spec_dest()", "units/C06/dispatch_stubs.c", "stubs/vp_glib.h"],
        "not_covered": ["messages shorter than their type requires are C12 (dispatch_short unit)", "what the state setters do with the arguments (C07)", "FIFO order inside GLib's queue (its contract)"],
        "explanation": "DESIGN.md §5 C06",
    },
    "C19": {
        "claimed": True, "engine": "cbmc-contracts", "level": "proof",
        "technique": "contract-based deductive verification (CBMC): mirror clauses of the dispatcher (callees replaced by recording contracts) + the four mirror encoders proved in C18's units",
        "level_text": "Proved for all payloads and both answers of the board lookup: for MSG_BM_OCC / FREE / MULTIPLE / POSITION the dispatcher sends exactly one mirror of the matching kind to the reporting node, carrying the reported detector number (size + bitmap pointer / position bytes), followed by a flush, iff the board is known and its SecAck flag is set, and no mirror otherwise or for any other type. The four bidib_send_bm_mirror_* encoders (range checks, bitmap copy for every size 8..128) are proved against the oracle table (C18 units, loop contract on the bitmap copy).",
        "level_note": "NOT covered: that the parser sets secack_on exactly for feature 0x03 with value > 0 (board parser not under contract); interaction with an exhausted response budget or a stalled node (the mirror goes through bidib_node_try_send like any message; mirrors have response size 0 but still queue behind deferred messages).",
        "assumptions": ["syslog compiled out", "the board lookup is replaced by 'unknown board, or a board with an arbitrary SecAck flag'"],
        "trusted_base": ["units/C06/dispatch_stubs.c", "units/C18/gen.py oracle rows of the mirror encoders"],
        "not_covered": ["boards with more than 2 listed features in the parser unit (bounded)", "mirror delayed by budget/stall"],
        "explanation": "DESIGN.md §5 C19",
    },
    "C12": {
        "claimed": True, "engine": "cbmc-contracts", "level": "proof",
        "technique": "contract-based deductive verification (CBMC/DFCC): memory-safety obligations (bounds, pointer validity, free) of the uplink path under preconditions that assume nothing about the bytes, plus lock balance of everything that runs on the receiver thread",
        "level_text": "Proved: bidib_receive_packet (every byte stream, loop contracts) never leaves its 256-byte buffer; the four extract helpers stay inside the heap copy for every message split_packet hands over; the dispatcher's hex-dump buffer holds 5 characters per message byte; list arguments handed to the state setters lie inside the message (for messages as long as their type requires); every function that runs on the receiver thread (state setters, node-state functions, receive.c) returns with every lock it took (E2 lock-discipline units), so no input can leave a lock behind. Bounded: bidib_split_packet for packets <= 12 bytes. The dispatcher (all 256 types, arbitrary content AND arbitrary length, also shorter than the type requires) reads only inside the message: short messages are dropped (defect D12, fixed).",
        "level_note": "Trusted: CBMC 6.11 + DFCC; contract stubs of the dispatcher's callees. NOT covered: the bodies of the state setters (list walks in bm_address, boost_diagnostic, vendor; code->string tables used only inside logging calls, which are compiled out), liveness of the polling loops.",
        "assumptions": ["syslog compiled out: reads that occur only inside a logging argument are not checked", "malloc never fails", "polling for input has no effect on state"],
        "trusted_base": ["units/C06/dispatch_stubs.c", "reference decoder of units/C02/receive_packet.c"],
        "not_covered": ["setter bodies beyond the stated list/byte bounds of their units", "split_packet beyond 12-byte packets (bounded)", "reads that occur only inside logging arguments in units that compile logging out"],
        "explanation": "DESIGN.md §5 C12",
    },
    "C07": {
        "claimed": True, "engine": "cbmc-contracts", "level": "proof",
        "technique": "contract-based deductive verification (CBMC): per-setter effect contracts with the lookup replaced by 'NULL or an arbitrary element' (frame = 'changes nothing else', NULL = 'unknown changes nothing'); dispatcher argument clauses",
        "level_text": "Only part of this property is under contract. PROVED (loop-free, complete): bidib_state_bm_current for all 256 current codes against the BiDiB milliampere table incl. overcurrent/unknown codes, touching nothing but the power consumption and nothing at all for an unknown segment; both speed conversions over their full domains; the dispatcher passes detector number / occupancy / current code from the spec'd payload offsets (C06 dispatcher unit). BOUNDED (<= 3 addresses): bidib_state_bm_occ sets the reported occupancy and changes nothing for an unknown segment.",
        "level_note": "NOT under contract in this version: the other 19 setters (booster state/diagnostics, command-station state, accessory/peripheral/reverser state, drive and accessory acknowledgements, confidence, address lists, speed, dynamic state), bidib_state_reset, the getters (C17), and the induction over message histories (each handler frames everything else => the state is the fold: on paper). A change in an uncovered setter is not detected.",
        "assumptions": ["lookup helpers are replaced by 'NULL or an arbitrary valid element' (their own search loops are not under contract)", "syslog compiled out", "bool members hold 0 or 1"],
        "trusted_base": ["BiDiB occupancy-message table transcribed in units/C07/bm_current.c"],
        "not_covered": ["bidib_state_reset initial values", "fold over histories is the induction over the per-message contracts (on paper)", "bidib_state_node_new/lost are C15", "lookups other than the six proved in C15.lookup_* remain assumed contracts ('NULL or an element')"],
        "explanation": "DESIGN.md §5 C07",
    },
    "C08": {
        "claimed": True, "engine": "cbmc-contracts", "level": "other",
        "technique": "contract-based verification with CBMC, bounded stand-ins: update_train_available against the contract of the position query; bm_occ with a ghost 'segment data final when derived state is recomputed'",
        "level_text": "BOUNDED (3 tracked trains, arbitrary query result per train, loop unwound completely): after bidib_state_update_train_available every train is on-track iff its position query lists a segment and its orientation is the one reported with the address; every query result is freed once. BOUNDED (<= 3 addresses per segment): a segment reported free lists no addresses afterwards and the derived availability is recomputed exactly once, after the segment data is final (never lags); an unknown segment changes nothing.",
        "level_note": "Level 'other': all deciding units are bounded stand-ins (nested GArray structures). NOT covered: bidib_get_train_position_intern (which segments list the address), bidib_state_bm_multiple, bidib_state_bm_address, concurrent getters (lock clauses are C10/C11).",
        "assumptions": ["bidib_get_train_position_intern is replaced by an arbitrary result per train (its own contract is not proved)", "GArray concrete model of stubs/vp_glib.h", "bool members hold 0 or 1"],
        "trusted_base": ["stubs/vp_glib.h"],
        "not_covered": ["more than 3 trains / 2 segments x 2 addresses (bounds of the stand-ins)", "getters racing the receiver (lock discipline is C10/C11)"],
        "explanation": "bounded stand-ins only: each CBMC obligation of a bounded unit counted once; DESIGN.md §5 C08",
    },
    "C09": {
        "claimed": True, "engine": "cbmc-contracts", "level": "proof",
        "technique": "contract-based deductive verification (CBMC): speed-step encoding over the full domain; bidib_set_train_speed_internal against its contract with lookups and the drive sender replaced by contracts",
        "level_text": "PROVED (loop-free, complete): speed encoding -126..126 <-> DCC byte incl. direction kept at speed 0 and the round trip, all 256 DCC bytes decoded; bidib_set_train_speed_internal returns 1 and submits nothing for NULL ids, unknown train, unknown / disconnected / non-track-output board and every out-of-range int speed, and otherwise returns 0 and submits exactly one drive request to the board's current node address with the train's DCC address, the format of its speed steps, only the speed group active, the encoded speed and all functions 0. BOUNDED, thorough tier only (train with 3 configured functions): bidib_set_train_peripheral selects the function group by bit, sets the requested bit and preserves the other bits of the group.",
        "level_note": "NOT under contract: bidib_switch_point, bidib_set_signal, bidib_set_peripheral (nested board/mapping/aspect arrays), booster/track-output commands, reverser request, emergency stop, calibrated speed, the optimistic state update (bidib_state_cs_drive / cs_accessory). For those only the lock discipline (C10/C11) is proved.",
        "assumptions": ["lookups replaced by 'NULL or an arbitrary valid element'", "bidib_send_cs_drive_intern replaced by a recording contract (its encoding is C18)", "bool members hold 0 or 1", "syslog compiled out"],
        "trusted_base": ["units/C09/train_speed.c stubs"],
        "not_covered": ["bidib_emergency_stop_train, bidib_set_calibrated_train_speed, bidib_request_reverser_state", "configurations above the stated bounds (2 boards, 2 aspects, 2 port values)", "set_train_peripheral only in the thorough tier (3000 s unit)"],
        "explanation": "DESIGN.md §5 C09",
    },
    "C13": {
        "claimed": True, "engine": "cbmc-contracts", "level": "proof",
        "technique": "contract-based deductive verification (CBMC/DFCC): lock balance and lock order of every function on the start / configuration path (generated lock contracts + loop invariants), for all inputs and all error returns",
        "level_text": "What is decided of this property is its lock clause: every function that runs during bidib_start_* - the three config parsers (every section parser, every error branch), every bidib_state_add_* uniqueness check, bidib_state_init, the start functions and bidib_stop with bidib_state_reset_train_params - returns with exactly the lock vector it was entered with, on every path and for every YAML event sequence (parser data is abstracted to nondeterministic values), and acquires locks in the global order; so a rejected configuration cannot leave a lock behind and bidib_stop cannot block on one (the defect fixed in 0dbe4de was of this kind).",
        "level_note": "NOT decided by contracts here: memory safety of the ~2000 lines of YAML event state machines and of the cleanup of partial records (bidib_state_free_single_*), 'returns 0 or 1', release of memory, restartability (see C16). Those parts of the statement are not claimed; a crash in a parser error branch is not detected by this check.",
        "assumptions": E2_ASSUME,
        "trusted_base": COMMON_TB,
        "not_covered": ["YAML text -> event stream (libyaml itself; its event API is an assumed contract)", "event streams longer than the stated bounds, scalar values outside the unit's pool", "heap release of rejected configurations beyond 'every free is of a live heap object' (no leak accounting)", "termination (libyaml streams are finite)"],
        "explanation": "engine E2 restricted to the start path, DESIGN.md §5 C13",
    },
    "C15": {
        "claimed": True, "engine": "cbmc-contracts", "level": "proof",
        "technique": "contract-based deductive verification (CBMC): is_subnode against the prefix specification, node_new / node_lost effect contracts, dispatcher clauses for MSG_NODE_NEW/LOST",
        "level_text": "PROVED (complete): bidib_state_is_subnode is true iff the first address is a proper prefix of the second (all valid address pairs); bidib_state_node_new connects exactly the board with the announced unique id at the interface address extended by the local address in the first free level and changes no other board and nothing for an unknown id; the dispatcher passes unique id bytes 2..8 and the local address, acknowledges to the sender with the announced table version after the update, and flushes (C06 dispatcher unit). BOUNDED (3 configured boards): bidib_state_node_lost disconnects the board and, if it is an interface, every board beneath it, and no other board.",
        "level_note": "bidib_state_query_nodetab is a bounded stand-in (<= 2 table rows, 3 boards, arbitrary answers incl. a table change): rows connect exactly the named boards at the composed address, other boards are left alone, a change restarts, sub-interface rows are queued whether configured or not. NOT under contract: bidib_state_init_allocation_table (the BFS driver loop) and 'commands only to the current address of a connected board' beyond bidib_set_train_speed_internal (C09).",
        "assumptions": ["lookup by unique id replaced by 'NULL or one of the configured boards'", "node addresses are valid (no zero byte followed by a non-zero byte)", "syslog compiled out"],
        "trusted_base": ["units/C15/nodes.c spec_beneath()"],
        "not_covered": ["bidib_state_init_allocation_table", "tables with more than 2 rows, more than 3 boards"],
        "explanation": "DESIGN.md §5 C15",
    },
    "C17": {
        "claimed": True, "engine": "cbmc-contracts", "level": "proof",
        "technique": "contract-based deductive verification (CBMC): each getter's postcondition 'every field of the result equals the tracked field (or its default)' with the lookup replaced by 'NULL or an arbitrary element'; result passed to its free function under CBMC's free() model",
        "level_text": "PROVED (loop-free, complete) for bidib_get_peripheral_state, _reverser_state, _booster_state, _track_output_state, _segment_state, _point_state, _signal_state x {known id, unknown id, NULL} x arbitrary tracked state: availability flag, every field equal to the tracked one (an uncopied field is an arbitrary value and fails), strings and lists are fresh copies made from the right source, and the documented free function is safe on the result in all three cases (invalid free / double free are obligations). The DCC fields the snapshot reports are also reported by the single getters. BOUNDED (2 entities): snapshot helpers for boosters and segments copy every field and the whole address list; bidib_get_train_position_intern returns exactly as many initialised, independently allocated entries as the address is listed, and its free function is safe.",
        "level_note": "NOT under contract in this version: the other ~40 getters (id lists, train state, features, aspects ...), the snapshot helpers for accessories / peripherals / reversers / trains / track outputs, bidib_free_track_state; 'stays unchanged when the state later changes' is shown only as 'points into fresh allocations'. String CONTENT equality is not checked (strdup is a contract: fresh object made from the given source).",
        "assumptions": ["lookup helpers replaced by 'NULL or an arbitrary valid element'", "strdup / memcpy replaced by contracts (fresh object, source recorded, watched byte copied)", "bool members hold 0 or 1", "malloc never fails"],
        "trusted_base": ["units/C17/getters.c, snapshot.c stubs"],
        "not_covered": ["id-list getters are covered under C14.enum_*; remaining single-value getters (e.g. bidib_get_train_*), bidib_free_track_state", "string contents beyond the recorded source of each copy"],
        "explanation": "DESIGN.md §5 C17",
    },
    "C14": {
        "claimed": True, "engine": "cbmc-contracts", "level": "other",
        "technique": "contract-based verification with CBMC of the decision procedures the parsers delegate to: uniqueness checks and enumeration getters (bounded stand-ins for the nested arrays), add_board complete",
        "level_text": "Only the decision procedures are under contract, not the file-level statement. PROVED (complete): bidib_state_add_board rejects (and appends nothing) iff the id or the unique id is already present, else appends exactly one board. BOUNDED: bidib_state_dcc_addr_in_use is true iff some DCC point, DCC signal or train uses the address (2 boards x 2+2 accessories + 2 trains, all addresses arbitrary); bidib_state_add_train rejects iff the id is present or the address in use; bidib_get_board_points / _signals report exactly the declared board-type and DCC-type accessories as independent copies in declaration order (<= 2 of each).",
        "level_note": "Level 'other': the deciding units for most clauses are bounded stand-ins. NOT covered: the YAML layer (which documents are accepted), per-record duplicate scans inside the track/train parsers (numbers, ports, aspects, CVs, calibration, speed steps, function bits), the other bidib_state_add_* functions, string->byte/uid/address conversions, the remaining enumeration getters.",
        "assumptions": ["lookups replaced by 'NULL or an arbitrary valid element'", "g_array_append_vals replaced by a counting contract in the add_* units", "strdup replaced by a contract"],
        "trusted_base": ["stubs/vp_glib.h"],
        "not_covered": ["YAML text -> events", "cross-record duplicate scans inside bidib_state_add_* beyond the three proved (board, train, dcc address)", "configurations above the stated bounds"],
        "explanation": "bounded stand-ins: each CBMC obligation of a bounded unit counted once; DESIGN.md §5 C14",
    },
    "C20": {
        "claimed": True, "engine": "cbmc-contracts", "level": "proof",
        "technique": "contract-based deductive verification (CBMC): event-order contract of bidib_send_sys_reset (every callee a recording contract), bounded stand-ins for the feature and initial-value loops",
        "level_text": "PROVED (loop-free, complete): bidib_send_sys_reset performs exactly its 17 steps in the documented order - reset message to the broadcast address, flush, node-table and queue resets (taking their own locks), state reset, node enumeration, packet-capacity query, board features, system enable, train-parameter reset, track outputs GO, flush, occupancy query under the boards read lock, flush, initial values - so features precede enable and GO precedes the initial values. BOUNDED: bidib_state_set_board_features sends each configured feature exactly once to the board it is configured for iff that board is connected, nothing to any other node, whatever the board answers (2 boards x <= 2 features); bidib_state_set_initial_values issues one high-level command per initial point / signal / peripheral with its aspect and each train function once per track output, then one flush (<= 2 of each).",
        "level_note": "'Same encoding as the high-level command' holds because the high-level commands themselves are called (their own contracts: C09, partially). NOT covered: bidib_communication_works (numbering off during the probe), which boards are connected (enumeration, C15 not covered part), 'nothing for unconnected boards' inside the high-level commands other than bidib_set_train_speed_internal.",
        "assumptions": ["an answer to every feature request eventually arrives (the wait loop polls bidib_read_intern_message)", "distinct boards have distinct addresses and a board's features distinct numbers (config checks)", "callees replaced by recording contracts"],
        "trusted_base": ["units/C20/startup.c stubs"],
        "not_covered": ["bidib_communication_works", "enumeration that decides connectivity", "larger configurations than the stated bounds"],
        "explanation": "DESIGN.md §5 C20",
    },
    "C16": {
        "claimed": True, "engine": "cbmc-contracts", "level": "proof",
        "technique": "contract-based deductive verification (CBMC): bidib_stop and two start/stop sessions against a ghost thread ledger and event-order contracts of every callee",
        "level_text": "PROVED (loop-free, complete): from every consistent state bidib_stop commands soft-stop, flush, zero speed / functions off for every train (bidib_state_reset_train_params), flush, track off, flush - in this order and while the internal threads still run - then marks the library stopped, joins every live internal thread exactly once, and only then releases serial port, node table, the three queues and the state; stop while stopped does nothing. Two sessions from process start (every auto-flush interval incl. 0, configuration accepted or rejected, interface answering or silent, debug mode on or off): start returns 0 or 1, a failed start leaves the library stopped, every pthread_join gets a thread that is alive, and after each stop no thread is left (joined exactly once). BOUNDED: bidib_node_state_table_reset releases every queue entry, every deferred message buffer and the node state exactly once (one node, <= 2 entries per queue).",
        "level_note": "NOT covered: that bidib_state_reset_train_params / bidib_set_track_output_state_all really emit one message per train x connected track output (nested arrays; only their lock discipline is proved), whole-session heap leaks (bidib_state_free, queue frees: only bidib_node_state_table_reset is under contract), process-lifetime globals restored to their initial values (packet capacity, sequence enable, action id), OS-level thread clean-up.",
        "assumptions": ["pthread_create never fails and yields a fresh non-zero handle (ghost ledger)", "callees of stop/start replaced by event-recording contracts", "GLib models"],
        "trusted_base": ["units/C16/lifecycle.c ghost thread ledger"],
        "not_covered": ["heap release of state and queues", "globals other than those the units read back (thread handles, running flag, node table, segment lookup) restored for the next session"],
        "explanation": "DESIGN.md §5 C16",
    },
}


# ---- texts refreshed after the build phase (override the planning-time wording above) -------------------------------
PROPS["C01"].update({
    "level_text": "PROVED for every buffer content and fill level 0..256, every message and capacity: CRC table == polynomial spec for all 65536 (crc, byte) pairs; bidib_add_to_buffer keeps the buffer invariant and the capacity rule and appends the message bytes at the fill point; bidib_flush_impl emits delimiter + payload + escapes + CRC(1|2) + delimiter with exact length accounting, never overruns the staging buffer, empties the buffer; both encoders lay out length/address/0/seq/type/data exactly, hand the message over at most once after admission. BOUNDED: byte-exact stream content (escape of payload and of the CRC byte, CRC value) for buffers of at most 6 bytes; bounded fall-backs of the encoders run only when their loop contracts no longer match the source.",
    "level_note": "A DFCC loop-contract proof of the byte-exact version for all 256 bytes did not finish in 900 s; the bounded unit uses the real CRC table.",
})
PROPS["C03"].update({
    "level_text": "PROVED (all inputs): admit-or-defer rule of bidib_node_try_send with the node invariant (outstanding bytes <= 48, counter == sum of the response queue). BOUNDED: bidib_node_try_queued_messages (<= 4 releases), bidib_node_state_update (<= 3 outstanding requests: an answer is attributed to the oldest request that accepts it - also when that request is past its expiry, finding D25 -, expired requests are dropped, the deferred queue is retried after every budget release).",
})
PROPS["C07"].update({
    "technique": "contract-based deductive verification (CBMC): one unit per state setter against a postcondition over the whole touched entity plus frame clauses ('unknown address changes nothing', 'nothing else changes'); lookups replaced by contracts that are themselves proved in C15.lookup_*",
    "level_text": "Every setter reachable from the dispatcher has a unit: PROVED (loop-free, all wire values): bm_current, boost_state, cs_state, cs_drive_ack, cs_accessory_ack, cs_accessory, cs_accessory_manual, lc_wait, bm_speed, bm_dyn_state, cs_drive (all 32 function bits x 5 groups), speed conversions. BOUNDED (lists of stated size): accessory_state, lc_stat (<= 2 aspects), bm_occ, bm_address (<= 3 reported, <= 2 listed), bm_multiple (<= 12 bits, watched segment), bm_confidence (<= 2 segments), boost_diagnostic, vendor; lookups by node address / number / DCC address (<= 3 boards / trains).",
    "level_note": "The statement's 'fold of all messages' is the induction over these per-message contracts; the induction step itself is on paper. Assumed configuration invariants are listed per unit (e.g. an accessory has at least one aspect - the parser rejects empty lists, proved in C13.parse_*).",
})
PROPS["C08"].update({
    "level_text": "BOUNDED stand-ins only: bidib_state_update_train_available (3 trains: on_track <=> position query non-empty, orientation the reported one), bidib_get_train_position_intern (2 segments x <= 2 addresses: exactly the segments listing the address, whatever their occupancy flag), bm_occ / bm_multiple / bm_address (free segment lists nothing; availability recomputed once, after the segment data is final), lookups by DCC address and by detector number.",
})
PROPS["C09"].update({
    "level_text": "PROVED (loop-free): speed encoding both ways, bidib_set_train_speed_internal (every int speed, direction kept at 0), bidib_set_track_output_state, bidib_set_booster_power_state: return 0 and exactly the one configured message to the board's current address iff known, connected, right class and value in range; else 1 and nothing sent. BOUNDED: bidib_switch_point, bidib_set_signal, bidib_set_peripheral over a configuration of 2 boards x (board accessory + DCC accessory | peripheral) x 2 aspects x 2 port values with arbitrary content (message count, address, number/port/DCC address, aspect value, port/value/extended bits, optimistic DCC state); bidib_set_track_output_state_all (3 boards); bidib_state_cs_drive (function bits of active groups, others preserved); bidib_set_train_peripheral (thorough tier only).",
})
PROPS["C10"].update({
    "technique": "contract-based deductive verification (CBMC/DFCC): generated lock-discipline unit per function - requires-held contracts at every call site, an access obligation at every textual use of guarded data (mechanically instrumented copy of each source file), atomic read-modify-write sections, lock order and balance",
    "level_text": "For every function of the library (274 units, loop contracts on every loop, all arguments, all paths): (1) every call of an accessor documented 'Shall only be called with <lock> acquired' happens with that lock held; (2) every textual access to guarded data - the members of bidib_track_state (guards read from the '// guarded by' comments), bidib_boards, bidib_trains, the send buffers, the node-state table, the action-id counter, and (unit C06.queue_guard) the three uplink queues - happens with its lock held, or inside the single-threaded init/teardown phase; preconditions of undocumented helpers are inferred and become obligations at their call sites up to the public API; (3) the read-modify-write of a train's function group in bidib_set_train_peripheral stays inside one exclusive section of bidib_trains_rwlock; (4) the C11 obligations (order, balance), without which concurrent calls block forever.",
    "level_note": "This is the lockset discipline that makes the sequential contracts of the other properties valid under threads; it is not a schedule exploration. One waiver (contracts/locks.json immutable_part_reads): bidib_state_set_initial_values reads only the length of bidib_track_state.track_outputs and the id of its elements, both written only in the single-threaded phases - the waiver is void as soon as the function reads another element field.",
    "explanation": "engine E2 (all obligation classes), DESIGN.md 0.2 / §5 C10",
})
PROPS["C13"].update({
    "technique": "contract-based deductive verification (CBMC): (a) lock balance/order of every function on the start path (engine E2); (b) every YAML section parser against a model of the libyaml event API: pointer safety, event ledger, record invariants; (c) resource ledger of the three config-file functions; (d) start/stop sessions unit",
    "level_text": "PROVED: locks released on every path of the start/configuration code (38 E2 units); a file that was opened is closed once and a parser that was initialised is deleted once, neither is touched otherwise (3 units); a failed start leaves the library stopped (sessions unit). BOUNDED: each of the 14 parser functions (aspect, dcc aspect + port, board/dcc accessory, peripheral, segment, reverser, board setup, board, train + calibration + function, scalar_then_section) for every event stream up to the stated length (any event type at any point, parse failure at any point, scalar values from a pool): no invalid pointer is dereferenced, no double free / free of a non-heap pointer, every parsed event is deleted exactly once, list elements left behind satisfy the precondition of bidib_state_free_single_board (itself a unit).",
    "level_note": "NOT decided: libyaml itself (text -> events), leak freedom (no ownership accounting beyond 'every free is valid'), termination. Seven crash sites on malformed configurations were found by these units and repaired (finding family D26).",
    "explanation": "DESIGN.md 0.2 / §5 C13",
})
PROPS["C14"].update({
    "level_text": "PROVED: bidib_state_uids_equal (all 7 bytes). BOUNDED: scalar conversions string -> byte / unique id / DCC address against a model of strtol (every string up to the stated length; decimal vs 0x-hex, range, malformed -> rejected, bytes in order); uniqueness checks of bidib_state_add_board / add_train / dcc_addr_in_use; enumeration getters; and the record-level clauses proved in the parser units (duplicate aspect id/value, duplicate port, initial value must name an aspect and is filed under its own kind, accessory without aspects rejected, calibration exactly 9 values <= 126, function bit <= 31 and not duplicated, board missing from the board file rejected before any section is parsed, booster / track output from the class bits).",
})
PROPS["C17"].update({
    "level_text": "PROVED (loop-free, known / unknown / NULL id): 7 single-entity getters with their free functions. BOUNDED (2 entities): all 9 snapshot helpers of bidib_get_state (boosters, segments, board/DCC accessories, peripherals, reversers, track outputs, trains) and the position query: every scalar field equals the tracked one, every id / aspect id / list is an independent copy (a forgotten field is an arbitrary malloc'ed byte and fails), the tracked state is not modified.",
})
PROPS["C19"].update({
    "level_text": "PROVED: for every occupancy report type and every board (known/unknown, SecAck on/off, both modes): exactly one mirror of the matching kind iff the reporting board has SecAck on, addressed to it, carrying the reported number / size / bitmap / position bytes, flushed at once; the four mirror encoders against the oracle table. BOUNDED: the board parser sets secack_on iff feature 0x03 is listed with a value > 0 at any position (<= 2 features).",
})
PROPS["C20"].update({
    "level_text": "PROVED (loop-free): order of the reset dialogue in bidib_send_sys_reset (reset numbered and flushed before the tables are cleared, capacity query, features, enable, train parameters, track outputs GO, occupancy query, initial values). BOUNDED: bidib_state_set_board_features, bidib_state_set_initial_values, bidib_state_query_nodetab, bidib_set_track_output_state_all (every connected track output commanded exactly once), and in the parser units: an accessory's initial value is registered in the list of its own kind (points are commanded as points).",
})

PROPS["C11"].update({
    "level_text": PROPS["C11"]["level_text"] + " Additionally (wait points): no lock is held at a polling wait (usleep) and every function that may wait - transitively - is only called with no lock held, so a thread never waits for the receiver's progress while holding a lock the receiver needs (finding D28).",
})
PROPS["C13"]["level_text"] += " The segment and reverser units (quick) and the accessory / peripheral units (deep variants) end with a release epilogue - the real bidib_state_free_single_* functions on the board and on whatever the function registered - under CBMC's memory-leak check: a rejected or accepted record leaves nothing allocated that is not owned by the board or the registry."
PROPS["C13"]["not_covered"] = ["YAML text -> event stream (libyaml itself; its event API is an assumed contract)", "event streams longer than the stated bounds, scalar values outside the unit's pool", "leak freedom of the board / train / top-level parser functions (only the five section parsers carry the release epilogue)", "termination (libyaml streams are finite)"]
PROPS["C17"]["level_text"] += " bidib_free_track_state: for every combination of list lengths 0..2 no invalid or double free and nothing left allocated (memory-leak check); train getters (state, on-track, speed step, km/h, function state)."
PROPS["C17"]["not_covered"] = ["id-list getters are covered under C14.enum_*; a few remaining single-value getters (unique id / node address / board id queries)", "string contents beyond the recorded source of each copy"]
PROPS["C09"]["not_covered"] = ["configurations above the stated bounds (2 boards, 2 aspects, 2 port values, 3 train functions)"]
PROPS["C09"]["level_text"] = PROPS["C09"]["level_text"].replace("bidib_set_train_peripheral (thorough tier only)", "bidib_set_train_peripheral (function-group helper + command with the helper's contract; state other than 0/1 rejected - finding D18), bidib_set_calibrated_train_speed") + " PROVED also: bidib_emergency_stop_train, bidib_request_reverser_state."
PROPS["C16"]["level_text"] = PROPS["C16"].get("level_text", "") + " A start while running - with valid or rejected arguments - creates and joins nothing and leaves the session up."
PROPS["C05"]["not_covered"] = ["interleavings of concurrent senders (allocation / admission / buffering are not one atomic section)"]
