"""Per-property evidence metadata: what is trusted, assumed and not covered (mirrors DESIGN.md §5/§6/§8)."""
COMMON_ASSUME = [
    "volatile globals are read as ordinary memory (sound for data guarded by a lock whose held-ness is a precondition)",
    "syslog_libbidib is a no-op stub (format strings / varargs not evaluated)",
]
PROPS = {}
