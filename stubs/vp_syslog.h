/* Logging front end (real definition: src/highlevel/bidib_highlevel_util.c) compiled out in verification TUs:
 * logging has no effect on any property, and format-string evaluation is not modelled (assumption).
 * The real prototype is pulled in first (include guard), then every call `syslog_libbidib(...)` of the real source
 * expands to nothing.  Arguments of logging calls are therefore NOT evaluated - reads that occur only inside a logging
 * call (e.g. a table lookup used as a %s argument) are checked in the dedicated C12 units, which do not use this header. */
#ifndef VP_SYSLOG_H
#define VP_SYSLOG_H
#include <syslog.h>
#include "include/highlevel/bidib_highlevel_util.h"
#define syslog_libbidib(...) ((void)0)
#endif
