/* Stub for the library's logging front end (real definition: src/highlevel/bidib_highlevel_util.c).
 * Logging has no effect on any property; format-string evaluation is not modelled (assumption). */
#ifndef VP_SYSLOG_H
#define VP_SYSLOG_H
void syslog_libbidib(int priority, const char *format, ...) { (void)priority; (void)format; }
#endif
