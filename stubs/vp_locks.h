/* Ghost lock model (engine E2, DESIGN.md §4).  Included BEFORE the real /repo source: every textual
 * pthread_mutex_lock/unlock, pthread_rwlock_rdlock/wrlock/unlock call of the real code is redirected to the ghost
 * model, so the call sites that are instrumented are the real ones.
 *
 * vp_held[k]:  0 = not held by this thread, -1 = held exclusively (mutex / write lock), n>0 = n shared (read) holds.
 * Rank of a lock = its index; locks must be acquired in strictly increasing rank. */
#ifndef VP_LOCKS_H
#define VP_LOCKS_H
#include <pthread.h>

#define VP_NLOCKS 15
#define VP_LOCK_LIST(X) \
	X(0, bidib_trains_rwlock, pthread_rwlock_t) \
	X(1, trackstate_accessories_mutex, pthread_mutex_t) \
	X(2, trackstate_peripherals_mutex, pthread_mutex_t) \
	X(3, trackstate_segments_mutex, pthread_mutex_t) \
	X(4, trackstate_reversers_mutex, pthread_mutex_t) \
	X(5, trackstate_trains_mutex, pthread_mutex_t) \
	X(6, trackstate_boosters_mutex, pthread_mutex_t) \
	X(7, trackstate_track_outputs_mutex, pthread_mutex_t) \
	X(8, bidib_boards_rwlock, pthread_rwlock_t) \
	X(9, bidib_node_state_table_mutex, pthread_mutex_t) \
	X(10, bidib_send_buffer_mutex, pthread_mutex_t) \
	X(11, bidib_uplink_queue_mutex, pthread_mutex_t) \
	X(12, bidib_uplink_error_queue_mutex, pthread_mutex_t) \
	X(13, bidib_uplink_intern_queue_mutex, pthread_mutex_t) \
	X(14, bidib_action_id_mutex, pthread_mutex_t)

#define VP_DECL(i, name, type) extern type name;
VP_LOCK_LIST(VP_DECL)
#undef VP_DECL

int vp_held[VP_NLOCKS];
/* atomic read-modify-write sections (contracts/locks.json "atomic_sections"): the unit of a listed function sets vp_rmw_lock;
 * the read callee's contract opens the section, every release of that lock while it is open marks it broken, the write
 * callee's contract checks it */
int vp_rmw_lock; _Bool vp_rmw_open, vp_rmw_broken;
/* per-unit waiver of the guarded-access obligation (contracts/locks.json immutable_part_reads) */
_Bool vp_waived[VP_NLOCKS];
/* event counter for the control-flow variant of the engine (C09/C16/C20) */
unsigned vp_events;

#define VP_CMP(i, name, type) ((const void *)(p_) == (const void *)&name) ? i :
#define vp_lock_id(p) ({ const void *p_ = (p); (VP_LOCK_LIST(VP_CMP) -1); })

/* The checks are expanded IN PLACE at every real call site (statement-expression macros), so a failing
 * obligation carries the file and line of the lock call in /repo. */
#define VP_RANK_ONE(i, name, type) if (i > vp_id_) __CPROVER_assert(vp_held[i] == 0, "C11.lock_order: acquiring a lock while " #name " (higher rank) is held");
#define VP_ACQUIRE(p, shared) ({ \
	int vp_id_ = vp_lock_id((p)); \
	__CPROVER_assert(vp_id_ >= 0, "C11.known_lock: lock operation on an object that is not one of the library's 15 locks"); \
	if (vp_id_ >= 0) { \
		VP_LOCK_LIST(VP_RANK_ONE) \
		if (shared) { \
			__CPROVER_assert(vp_held[vp_id_] >= 0, "C11.no_self_deadlock: read lock requested while this thread holds the write lock"); \
			__CPROVER_assert(vp_held[vp_id_] <= 0, "C11.no_recursive_read: read lock re-acquired while already read-held (deadlocks when a writer is queued in between)"); \
			vp_held[vp_id_] = vp_held[vp_id_] < 0 ? -1 : vp_held[vp_id_] + 1; \
		} else { \
			__CPROVER_assert(vp_held[vp_id_] == 0, "C11.no_self_deadlock: exclusive lock requested while this thread already holds it"); \
			vp_held[vp_id_] = -1; \
		} \
	} \
	0; })
#define VP_RELEASE(p) ({ \
	int vp_id_ = vp_lock_id((p)); \
	__CPROVER_assert(vp_id_ >= 0, "C11.known_lock: unlock of an object that is not one of the library's 15 locks"); \
	if (vp_id_ >= 0) { \
		__CPROVER_assert(vp_held[vp_id_] != 0, "C11.unlock_held: unlock of a lock this thread does not hold"); \
		if (vp_rmw_open && vp_id_ == vp_rmw_lock) vp_rmw_broken = 1; \
		if (vp_held[vp_id_] > 0) vp_held[vp_id_] = vp_held[vp_id_] - 1; else vp_held[vp_id_] = 0; \
	} \
	0; })

/* wait point (usleep in a polling loop): the thread waits for progress of the receiver / auto-flush thread, so it must not
 * hold any lock those threads may need - otherwise the wait never ends (C11 "no call blocks forever") */
#define VP_WAIT_ONE(i, name, type) __CPROVER_assert(vp_held[i] == 0, "C11.wait_without_locks: waiting for another thread while holding " #name);
#define VP_WAIT_POINT() ({ VP_LOCK_LIST(VP_WAIT_ONE) 0; })
#define pthread_mutex_lock(m) VP_ACQUIRE((m), 0)
#define pthread_mutex_unlock(m) VP_RELEASE((m))
#define pthread_rwlock_rdlock(m) VP_ACQUIRE((m), 1)
#define pthread_rwlock_wrlock(m) VP_ACQUIRE((m), 0)
#define pthread_rwlock_unlock(m) VP_RELEASE((m))
#endif
