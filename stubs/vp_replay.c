/* Native replay support: harness inputs are read from $VP_REPLAY_FILE (lines "name=value" / "name[idx]=value"). */
#include <stdio.h>
#include <stdlib.h>
#include <string.h>
struct kv { char name[128]; long long val; };
static struct kv *tab; static int ntab = -1;
static void load(void) {
	ntab = 0;
	const char *p = getenv("VP_REPLAY_FILE");
	if (!p) return;
	FILE *f = fopen(p, "r");
	if (!f) return;
	char line[512];
	int cap = 0;
	while (fgets(line, sizeof line, f)) {
		char *eq = strchr(line, '=');
		if (!eq) continue;
		*eq = 0;
		if (ntab == cap) { cap = cap ? cap * 2 : 256; tab = realloc(tab, cap * sizeof *tab); }
		strncpy(tab[ntab].name, line, 127); tab[ntab].name[127] = 0;
		char *v = eq + 1;
		if (!strncmp(v, "TRUE", 4) || !strncmp(v, "true", 4)) tab[ntab].val = 1;
		else if (!strncmp(v, "FALSE", 5) || !strncmp(v, "false", 5)) tab[ntab].val = 0;
		else tab[ntab].val = strtoll(v, NULL, 0);
		ntab++;
	}
	fclose(f);
}
long long vp_replay_get(const char *name, long idx) {
	if (ntab < 0) load();
	char key[160];
	if (idx >= 0) snprintf(key, sizeof key, "%s[%ld]", name, idx); else snprintf(key, sizeof key, "%s", name);
	for (int i = ntab - 1; i >= 0; i--) if (!strcmp(tab[i].name, key)) return tab[i].val;
	/* cbmc prints array indices with a type suffix, e.g. in_buf[3l] */
	if (idx >= 0) { snprintf(key, sizeof key, "%s[%ldl]", name, idx); for (int i = ntab - 1; i >= 0; i--) if (!strcmp(tab[i].name, key)) return tab[i].val; }
	return 0;
}
