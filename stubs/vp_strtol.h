/* Assumed contract of strtol (C11 7.22.1.4) as an executable model - trusted base.  Covers bases 0, 8, 10 and 16, the
 * optional white space, sign and 0x/0X prefix; overflow (ERANGE) is not modelled: the units that use it pass strings of
 * at most 16 characters whose value fits a long. */
#ifndef VP_STRTOL_H
#define VP_STRTOL_H
static int vp_digit(char c) { return (c >= '0' && c <= '9') ? c - '0' : (c >= 'a' && c <= 'z') ? c - 'a' + 10 : (c >= 'A' && c <= 'Z') ? c - 'A' + 10 : 99; }
static long vp_strtol(const char *nptr, char **endptr, int base) {
	const char *p = nptr; _Bool neg = 0; long v = 0; _Bool any = 0;
	while (*p == ' ' || (*p >= '\t' && *p <= '\r')) p++;
	if (*p == '+' || *p == '-') { neg = (*p == '-'); p++; }
	if ((base == 0 || base == 16) && p[0] == '0' && (p[1] == 'x' || p[1] == 'X') && vp_digit(p[2]) < 16) { p += 2; base = 16; }
	else if (base == 0) base = (p[0] == '0') ? 8 : 10;
	while (vp_digit(*p) < base) { v = v * base + vp_digit(*p); p++; any = 1; }
	if (endptr) *endptr = (char *)(any ? p : nptr);
	return neg ? -v : v;
}
#endif
