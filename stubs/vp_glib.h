/* Assumed contracts of the GLib functions libbidib uses, as executable C models (trusted base, DESIGN.md §3.3 / §8).
 * Written from the GLib reference manual.  Include AFTER the real source (it needs <glib.h> types); the real GLib is not
 * linked into verification units, so these definitions are the only ones.
 *
 *  GArray / GString : concrete models (malloc'ed storage, real struct layout: data/len, str/len) - g_array_index is GLib's
 *                     own macro and works on them unchanged.
 *  GQueue           : UNBOUNDED lazy abstraction.  A queue is (length, head element).  The elements behind the head are
 *                     not materialised: when the head is popped the next head is a fresh, arbitrary, valid entry produced
 *                     by the hook vp_q_fresh(q) that the unit defines (so that entries satisfy the unit's entry invariant).
 *                     This over-approximates every concrete queue content of any length.
 *  GHashTable       : lookup oracle vp_hash_lookup(key) supplied by the unit.
 */
#ifndef VP_GLIB_H
#define VP_GLIB_H
#include <glib.h>

/* byte copy towards lower or equal addresses / between distinct objects (forward loop); the loop is unwound by the unit
 * (array models are only used in bounded stand-ins with small element counts) - avoids cbmc's costly symbolic-size memcpy */
static void vp_bytes(gchar *dst, const gchar *src, size_t n) { for (size_t vp_b = 0; vp_b < n; vp_b++) dst[vp_b] = src[vp_b]; }

/* ---------------- GArray (concrete) ---------------- */
typedef struct { gchar *data; guint len; guint elt_size; guint cap; } vp_garray;   /* first two members = GArray */

#ifdef VP_GLIB_FIXED_CAP
/* fixed-capacity variant for bounded stand-ins: storage for VP_GLIB_FIXED_CAP elements allocated once, appends beyond it
 * are outside the stated bound (assumed away) - avoids the reallocation copies that dominate the SAT problem */
GArray *g_array_sized_new(gboolean zero_terminated, gboolean clear_, guint element_size, guint reserved_size) {
	vp_garray *a = malloc(sizeof(vp_garray));
	__CPROVER_assume(a != NULL);
	a->len = 0; a->elt_size = element_size; a->cap = VP_GLIB_FIXED_CAP; a->data = malloc((size_t)VP_GLIB_FIXED_CAP * element_size);
	__CPROVER_assume(a->data != NULL);
	return (GArray *)a;
}
#define VP_GLIB_NO_GARRAY_APPEND
/* typed single-element append (units may redirect GLib's g_array_append_val macro here): constant element size */
#define VP_GARRAY_APPEND1(a, v) vp_garray_append1((a), &(v), sizeof(v))
GArray *vp_garray_append1(GArray *array, const void *src, size_t n) {
	vp_garray *a = (vp_garray *)array;
	__CPROVER_assert(n == a->elt_size, "glib.g_array_append_val: element size of the array");
	__CPROVER_assume(a->len < a->cap);
	memcpy(a->data + (size_t)a->len * n, src, n);
	a->len += 1;
	return array;
}
GArray *g_array_append_vals(GArray *array, gconstpointer data, guint len) {
	vp_garray *a = (vp_garray *)array;
	__CPROVER_assume(len <= a->cap - a->len);
	vp_bytes(a->data + (size_t)a->len * a->elt_size, (const gchar *)data, (size_t)len * a->elt_size);
	a->len += len;
	return array;
}
#else
GArray *g_array_sized_new(gboolean zero_terminated, gboolean clear_, guint element_size, guint reserved_size) {
	vp_garray *a = malloc(sizeof(vp_garray));
	__CPROVER_assume(a != NULL);
	a->len = 0; a->elt_size = element_size; a->cap = 0; a->data = NULL;
	return (GArray *)a;
}
#endif
GArray *g_array_new(gboolean z, gboolean c, guint element_size) { return g_array_sized_new(z, c, element_size, 0); }

#ifndef VP_GLIB_NO_GARRAY_APPEND
GArray *g_array_append_vals(GArray *array, gconstpointer data, guint len) {
	vp_garray *a = (vp_garray *)array;
	guint nl = a->len + len;
	gchar *nd = malloc((size_t)nl * a->elt_size + 1);
	__CPROVER_assume(nd != NULL);
	vp_bytes(nd, a->data, (size_t)a->len * a->elt_size);
	vp_bytes(nd + (size_t)a->len * a->elt_size, (const gchar *)data, (size_t)len * a->elt_size);
	if (a->data != NULL) free(a->data);
	a->data = nd; a->len = nl;
	return array;
}
#endif
GArray *g_array_remove_range(GArray *array, guint index_, guint length) {
	vp_garray *a = (vp_garray *)array;
	__CPROVER_assert(index_ <= a->len && length <= a->len - index_, "glib.g_array_remove_range: range inside the array");
	if (index_ <= a->len && length <= a->len - index_) {
		guint tail = a->len - index_ - length;
		if (length > 0) vp_bytes(a->data + (size_t)index_ * a->elt_size, a->data + (size_t)(index_ + length) * a->elt_size, (size_t)tail * a->elt_size);
		a->len -= length;
	}
	return array;
}
GArray *g_array_remove_index(GArray *array, guint index_) { return g_array_remove_range(array, index_, 1); }
GArray *g_array_remove_index_fast(GArray *array, guint index_) {
	vp_garray *a = (vp_garray *)array;
	__CPROVER_assert(index_ < a->len, "glib.g_array_remove_index_fast: index inside the array");
	if (index_ < a->len) {
		if (index_ != a->len - 1) vp_bytes(a->data + (size_t)index_ * a->elt_size, a->data + (size_t)(a->len - 1) * a->elt_size, a->elt_size);
		a->len -= 1;
	}
	return array;
}
gchar *g_array_free(GArray *array, gboolean free_segment) {
	vp_garray *a = (vp_garray *)array;
	gchar *d = a->data;
	if (free_segment) { if (d != NULL) free(d); d = NULL; }
	free(a);
	return d;
}

/* ---------------- GString (concrete) ---------------- */
#ifdef VP_STR_PREFIX
/* closed-world string abstraction of the parser units: copies keep only the first VP_STR_PREFIX characters (the unit's
 * generator checks that every string that can occur is identified by that prefix, so equality tests are exact) */
GString *g_string_new(const gchar *init) {
	GString *s = malloc(sizeof(GString));
	__CPROVER_assume(s != NULL);
	s->str = malloc(VP_STR_PREFIX + 1);
	__CPROVER_assume(s->str != NULL);
	size_t n = 0;
	if (init != NULL) for (unsigned vp_k = 0; vp_k < VP_STR_PREFIX; vp_k++) { if (init[vp_k] == 0) break; s->str[vp_k] = init[vp_k]; n++; }
	s->str[n] = 0; s->len = n; s->allocated_len = n + 1;
	return s;
}
#else
GString *g_string_new(const gchar *init) {
	GString *s = malloc(sizeof(GString));
	__CPROVER_assume(s != NULL);
	size_t n = init != NULL ? strlen(init) : 0;
	s->str = malloc(n + 1);
	__CPROVER_assume(s->str != NULL);
	if (n > 0) memcpy(s->str, init, n);
	s->str[n] = 0; s->len = n; s->allocated_len = n + 1;
	return s;
}
#endif
gchar *g_string_free(GString *string, gboolean free_segment) {
	gchar *d = string->str;
	if (free_segment) { free(d); d = NULL; }
	free(string);
	return d;
}
void g_string_printf(GString *string, const gchar *format, ...) { (void)string; (void)format; }

/* ---------------- GQueue (lazy, unbounded) ---------------- */
gpointer vp_q_fresh(GQueue *q);           /* unit hook: a fresh arbitrary valid entry that could be next in q */
void vp_q_pushed(GQueue *q, gpointer e);  /* unit hook: ghost bookkeeping on push (may be empty) */
void vp_q_popped(GQueue *q, gpointer e);  /* unit hook: ghost bookkeeping on pop */

GQueue *g_queue_new(void) {
	GQueue *q = malloc(sizeof(GQueue));
	__CPROVER_assume(q != NULL);
	q->head = NULL; q->tail = NULL; q->length = 0;
	return q;
}
gboolean g_queue_is_empty(GQueue *queue) { return queue->length == 0; }
guint g_queue_get_length(GQueue *queue) { return queue->length; }
gpointer g_queue_peek_head(GQueue *queue) { return queue->length == 0 ? NULL : (gpointer)queue->head; }
void g_queue_push_tail(GQueue *queue, gpointer data) {
	__CPROVER_assume(queue->length < 0xFFFFFFF0u);
	if (queue->length == 0) queue->head = (GList *)data;
	queue->length++;
	vp_q_pushed(queue, data);
}
gpointer g_queue_pop_head(GQueue *queue) {
	if (queue->length == 0) return NULL;
	gpointer e = (gpointer)queue->head;
	queue->length--;
	vp_q_popped(queue, e);
	queue->head = queue->length == 0 ? NULL : (GList *)vp_q_fresh(queue);
	return e;
}
void g_queue_free(GQueue *queue) { free(queue); }
#endif
