/* Common definitions for every verification wrapper TU (included BEFORE the real /repo source).
 * Dual mode: under CBMC (no VP_REPLAY) the __CPROVER_* primitives are used; under gcc -DVP_REPLAY the same
 * harness replays a counterexample natively against the real code. */
#ifndef VP_COMMON_H
#define VP_COMMON_H
#include <stdint.h>
#include <stddef.h>
#include <stdbool.h>
#include <stdlib.h>
#include <string.h>

#ifdef VP_REPLAY
#include <stdio.h>
#define __CPROVER_assume(c) do { if (!(c)) { printf("REPLAY-ASSUME-FAILED %s\n", #c); exit(3); } } while (0)
#define __CPROVER_assert(c, msg) do { if (!(c)) { printf("REPLAY-FAIL %s\n", msg); fflush(stdout); exit(1); } } while (0)
#define __CPROVER_cover(c) ((void)0)
#define __CPROVER_requires(...)
#define __CPROVER_ensures(...)
#define __CPROVER_assigns(...)
long long vp_replay_get(const char *name, long idx);
#define VP_IN(type, name) name = (type)vp_replay_get(#name, -1)
#define VP_IN_ARR(name, n) do { for (long vp_i_ = 0; vp_i_ < (long)(n); vp_i_++) name[vp_i_] = vp_replay_get(#name, vp_i_); } while (0)
#define VP_IN_BYTES(name, n) VP_IN_ARR(name, n)
#else
unsigned long long nondet_u64(void);
uint8_t nondet_u8(void);
int nondet_int(void);
_Bool nondet_bool(void);
#define VP_IN(type, name) do { type vp_tmp_; name = vp_tmp_; } while (0)
#define VP_IN_ARR(name, n) do { __CPROVER_havoc_object(name); } while (0)
#define VP_IN_BYTES(name, n) ((void)0) /* an uninitialised local array is nondeterministic; its initial value appears in the trace */
#endif
#define VP_ASSERT(c, msg) __CPROVER_assert((c), msg)
/* reachability guard (vacuity check): a must-FAIL assertion.  The driver requires every VP-REACH marker to be
 * reported FAILURE by CBMC (= the location is reachable with c true); a marker that "succeeds" is dead code or sits
 * behind a contradictory assumption, and the unit is rejected. */
#ifdef VP_REPLAY
#define VP_COVER(c) ((void)0)
#else
#define VP_COVER(c) __CPROVER_assert(!(c), "VP-REACH " #c)
#endif
#endif
