/* Variant of vp_syslog.h for units WITHOUT DFCC: the logging call is replaced by a no-op variadic function, so the ARGUMENTS of
 * every logging call are still evaluated (table look-ups such as bidib_cs_state_string_mapping[state] stay memory-safety obligations). */
#ifndef VP_SYSLOG_EVAL_H
#define VP_SYSLOG_EVAL_H
#include <syslog.h>
#include "include/highlevel/bidib_highlevel_util.h"
static inline void vp_log_args(int prio, const char *fmt, ...) { (void)prio; (void)fmt; }
#define syslog_libbidib(...) vp_log_args(__VA_ARGS__)
#endif
