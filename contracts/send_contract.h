/* Contract of bidib_buffer_message_with_data / bidib_buffer_message_without_data as seen by their callers
 * (every low-level send function, C18/C19, and the internal senders).
 *
 * The PRECONDITIONS below are exactly what the C01 units of the two functions assume (VP_BMWD_PRE); here they are
 * proof obligations at each call site.  The effect is recorded in ghost state: number of submissions, type,
 * address stack, payload length and one watched payload byte (index vp_snd_watch chosen nondeterministically by the
 * harness, so every payload position is covered).
 *
 * Included AFTER the real .c file of the caller.  send.c itself is not part of such a unit. */
#ifndef VP_SEND_CONTRACT_H
#define VP_SEND_CONTRACT_H

unsigned vp_snd_count;
uint8_t vp_snd_type;
uint8_t vp_snd_addr[4];
unsigned vp_snd_len;
unsigned vp_snd_watch;
uint8_t vp_snd_watch_val;
unsigned vp_snd_action_id;

/* number of address-stack bytes that go into the message, incl. the terminating 0 */
#define VP_ADDR_SIZE(a) ((a)[0] == 0 ? 1u : (a)[1] == 0 ? 2u : (a)[2] == 0 ? 3u : 4u)

#ifndef VP_REPLAY
#define VP_R_OK(p, n) __CPROVER_r_ok((p), (n))
#else
#define VP_R_OK(p, n) ((p) != NULL || (n) == 0)
#endif

void bidib_buffer_message_with_data(const uint8_t *const addr_stack, uint8_t msg_type, uint8_t data_length,
                                    const uint8_t *const data, unsigned int action_id) {
	__CPROVER_assert(VP_R_OK(addr_stack, 4), "C18.callee_pre.address_stack_readable: 4 readable bytes");
	__CPROVER_assert(addr_stack[3] == 0, "C18.callee_pre.address_stack_terminated: addr_stack[3] == 0");
	__CPROVER_assert(msg_type < 0x80, "C18.callee_pre.type_code_below_0x80 (downlink type, index into bidib_response_info[0x80])");
	__CPROVER_assert((unsigned)data_length + VP_ADDR_SIZE(addr_stack) + 3u <= 128u, "C18.callee_pre.length_byte_le_127: data_length + address + 3 <= 128");
	__CPROVER_assert(VP_R_OK(data, data_length), "C18.callee_pre.payload_readable: data readable for data_length bytes");
	vp_snd_count++;
	vp_snd_type = msg_type;
	vp_snd_addr[0] = addr_stack[0]; vp_snd_addr[1] = addr_stack[1]; vp_snd_addr[2] = addr_stack[2]; vp_snd_addr[3] = addr_stack[3];
	vp_snd_len = data_length;
	vp_snd_action_id = action_id;
	if (vp_snd_watch < data_length) vp_snd_watch_val = data[vp_snd_watch];
}

void bidib_buffer_message_without_data(const uint8_t *const addr_stack, uint8_t msg_type, unsigned int action_id) {
	__CPROVER_assert(VP_R_OK(addr_stack, 4), "C18.callee_pre.address_stack_readable: 4 readable bytes");
	__CPROVER_assert(addr_stack[3] == 0, "C18.callee_pre.address_stack_terminated: addr_stack[3] == 0");
	__CPROVER_assert(msg_type < 0x80, "C18.callee_pre.type_code_below_0x80 (downlink type, index into bidib_response_info[0x80])");
	vp_snd_count++;
	vp_snd_type = msg_type;
	vp_snd_addr[0] = addr_stack[0]; vp_snd_addr[1] = addr_stack[1]; vp_snd_addr[2] = addr_stack[2]; vp_snd_addr[3] = addr_stack[3];
	vp_snd_len = 0;
	vp_snd_action_id = action_id;
}
#endif
