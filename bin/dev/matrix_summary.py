import re,glob,json
rows={}
for f in glob.glob('/verif/work/matrix_*.txt'):
    for l in open(f):
        m=re.match(r'(C\d\d-\d) :: (.*)', l.strip())
        if not m: continue
        pk, r = m.groups()
        if 'VIOLATION' in r:
            u=re.findall(r'unit=(\S+)', r)
            rows[pk]=('caught', sorted(set(u)))
        elif 'PATCH' in r: rows[pk]=('noapply',[])
        elif 'UNDECIDED' in r and 'rc=2' in r: rows[pk]=('undecided',[])
        elif 'rc=0' in r: rows[pk]=('missed',[])
        else: rows[pk]=('other:'+r[:60],[])
by={}
for pk,(st,u) in sorted(rows.items()): by.setdefault(st,[]).append((pk,u))
for st,v in by.items():
    print(st, len(v))
    if st=='caught':
        print("  "+"; ".join("%s (%s)"%(pk, ", ".join(x.replace('E2.','E2:') for x in u[:2])) for pk,u in v))
    else: print("  "+", ".join(pk for pk,_ in v))
