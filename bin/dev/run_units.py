import sys; sys.path.insert(0,'/verif')
import time
from concurrent.futures import ThreadPoolExecutor
from vpkg import core, driver
core.WORK='/verif/work/tu'
us=[u for u in driver.load_units() if any(a in u.name for a in sys.argv[1:])]
print(len(us),"units"); t0=time.time()
with ThreadPoolExecutor(15) as ex: rs=list(ex.map(core.run_unit, us))
print("wall %.0fs"%(time.time()-t0))
for r in rs:
    print(r.unit.name, r.status, r.reason[:300], "obl",len(r.obligations), "fail",len(r.failed), "reach %d/%d"%(r.covers_sat,r.covers_total), "%.1fs"%r.t_solve)
    seen=set()
    for o in r.failed:
        k=(o.desc[:120],o.loc)
        if k in seen: continue
        seen.add(k)
        if len(seen)<=8: print("     ",o.pid,o.desc[:160],o.loc.replace('/repo/src/',''))
    if r.status=='error': print(r.log_tail[-1500:])
