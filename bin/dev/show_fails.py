import sys; sys.path.insert(0,'/verif')
from concurrent.futures import ThreadPoolExecutor
from vpkg import core, driver
core.WORK='/verif/work/tu'
us=[u for u in driver.load_units() if any(u.name==a for a in sys.argv[1:])]
with ThreadPoolExecutor(15) as ex: rs=list(ex.map(lambda u: core.run_unit(u, want_trace=False), us))
import re
for r in rs:
    print("==", r.unit.name, r.status, len(r.failed))
    seen=set()
    for o in r.failed:
        d=re.sub(r'dereference failure: (pointer NULL|pointer invalid|deallocated dynamic object|dead object|pointer outside object bounds|invalid integer address)', 'deref', o.desc)
        k=(d[:110], o.loc.split('/')[-1])
        if k in seen: continue
        seen.add(k); print("   ", d[:130], o.loc.replace('/repo/src/','')[-45:])
