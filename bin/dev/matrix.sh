#!/bin/sh
# full seed matrix: every seeded change against the quick check of its property (scratch worktree, /repo untouched)
OUT=/verif/work/matrix_$1.txt; : > $OUT; shift
for pk in "$@"; do
  id=${pk%-*}
  r=$(/verif/bin/seedtest2 /verif/seeded/$pk/patch.diff $id quick 2>&1 | grep -E "^(VIOLATION|OK|UNDECIDED|KNOWN|PATCH)|^rc=" | head -3 | tr '\n' '|' | cut -c1-330)
  echo "$pk :: $r" >> $OUT
done
